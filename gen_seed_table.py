#!/usr/bin/env python3
"""Regenerates section 9 of DESIGN.md from seeded/*/meta.json."""
import json, glob, os, re
rows = []
for f in sorted(glob.glob('/verif/seeded/*/meta.json')):
    m = json.load(open(f))
    name = os.path.basename(os.path.dirname(f))
    keys = []
    for p, v in m["checks_run"]["results"].items():
        if v["exit"] == 1:
            keys.append("%s: `%s`" % (p, v["witness_keys"][0] if v["witness_keys"] else "violation"))
    summ = re.sub(r"\s+", " ", (m.get("summary") or ""))[:230].replace("|", "/")
    needs = re.sub(r"\s+", " ", (m.get("needs_to_manifest") or ""))[:200].replace("|", "/")
    det = "; ".join(keys) if keys else "**not detected**"
    own = m["checks_run"]["results"].get(m["property"], {}).get("exit") == 1
    own_n = globals().get("own_n", 0) + (1 if own else 0)
    globals()["own_n"] = own_n
    if m.get("missed_at_first"):
        det += " (missed at first: %s)" % m["missed_at_first"]
    if m.get("not_detected_by_own_check_note"):
        det += " (not reported by %s's own check: %s)" % (m["property"], m["not_detected_by_own_check_note"])
    if m.get("strengthened_from_report"):
        det += " (%s)" % m["strengthened_from_report"]
    rows.append("| %s | %s | %s | %s |" % (name, summ, needs, det))
text = """## 9. Seeded changes

Fresh sub-agents were each given only the text of one property and a scratch
worktree of `/repo`, and asked for two changes that break the property while
the library still compiles and the whole existing test suite still passes, each
with a demonstration test. There were several rounds: variants A/B; C/D, for
which the agents were asked for triggers unlike the obvious ones (an unusual
but legal configuration, a multi-step sequence, a storage fault, a boundary
instant, an integrator-supplied extension); E/F ("changes that hide well":
sibling paths, store behaviours, concurrency); G/H (integrator-supplied
implementations, feature interactions, value normalisation, state that
outlives a request, error-path ordering); I/J (regressions of the repairs
made in `/repo`, and changes in helpers shared by several endpoints); M/N
(rarely used shipped alternatives - other strategies, optional client / session
interfaces, non-default Config getters - and the interaction of two features);
R/S (code many endpoints share - helpers of the root package, the shipped
session types, the response writers, token/jwt, token/hmac, the reference store
- and what is written to the wire after the library took the right decision);
T (a short last round, one change each for twelve properties, the agents asked
for a less-travelled path, option, claim, boundary value, handler variant or
store method; one check, C17, was strengthened for it).
Letters K/L and P/Q are the benign rounds (section 9.1). Seeded changes that a
later `fix:` commit collided with were re-cut against HEAD (meta `ported`);
those that a later repair neutralised (the demonstration no longer fails) are
not kept. After the
fourth round every kept
change was applied again to `/repo` HEAD and its checks re-run with the final
harness (`reseed.py`); the table shows those results. Every change kept here was confirmed by
`seedrun.py` on a scratch worktree of `/repo` HEAD (suite passes with the
change; the demonstration fails with it and passes without it) and then the
property's quick check was run against that worktree (`VERIF_REPO=<worktree>
./check <id> quick`; `/repo` itself is never touched). `seeded/<id>-<variant>/`
holds `patch.diff`, the demonstration and `meta.json`. Changes that could not be
confirmed (e.g. neutralised by one of the `fix:` commits) are not kept.

Checks were strengthened where a change was missed; the "missed at first"
remarks say what was added. %d changes are kept; %d are detected by the quick
check of the property they were written against, %d by at least one quick check
(the remaining ones break a clause that another property states more directly;
the table names the check that reports them).

| Change | What it does | Needs | Detected by (first witness key) |
|---|---|---|---|
%s

### 9.1 Benign changes (false-alarm round)

The converse experiment: eighty changes written to PRESERVE their property (`benign/<id>-<K|L|P|Q>/`, four per property, two rounds; seventy-nine are kept - the eightieth, C14-Q, preserved C14 but broke C07 and is listed below as a true positive; the second round asked for changes an over-fitted checker would trip over: token shapes, wire encodings, store layouts, call sequences, texts). Fresh
sub-agents were given only the property text and a scratch worktree and asked to change as much as possible of what the
statement does not pin down - control flow, hint / debug texts, the legal error chosen where several apply, the order of
independent storage calls, additional storage reads, stricter validation, other data structures and locks in the reference
store, token lengths, extra headers and JSON members - with an argument, clause by clause, why the property still holds.
`./benign_run.sh` applies each one to a scratch worktree of `/repo` and runs ALL twenty quick checks against it (1580 check
runs); any exit other than 0 is an alarm on code where the property holds. Alarms found, all corrected in the machinery
(section 8 has the details), none by loosening a check that was right:

%s

After round 8 extended C17's cast, all seventy-nine changes were run again under the changed C17 check: all silent. That pass showed that one of them, C17-P, had not built since F39 (a 3-way application that no longer compiled; the pass after F39 carried its earlier results forward); it was re-cut against HEAD with F39 kept and run under all twenty checks again.

After the corrections all seventy-nine changes are silent under all twenty checks (`benign/RESULTS.md`, written by `benign_results.py` from the last run) (patches that later `fix:` commits collided with were re-cut against HEAD with the fixes kept).
""" % (len(rows), own_n, sum(1 for r in rows if "**not detected**" not in r), "\n".join(rows), open('/verif/benign/ALARMS.md').read().strip())
p = '/verif/DESIGN.md'
s = open(p).read()
i = s.find('## 9. Seeded changes')
if i >= 0:
    s = s[:i]
s = s.rstrip() + "\n\n" + text
open(p, 'w').write(s)
print(len(rows), "rows")
