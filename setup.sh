#!/bin/bash
# MANIFEST.setup_cmd: build both harness binaries offline (warms the Go build cache for both modes).
set -e
cd "$(dirname "$0")"
exec ./check --build-only
