#!/usr/bin/env python3
"""seedrun.py <seed dir> [props...]  e.g. seedrun.py /tmp/seed/C01/A C01
Confirms a seeded change (applies on a scratch worktree of /repo HEAD, suite passes, demo fails with / passes without),
then runs the given checks (default: the property in meta.json) against the scratch worktree via VERIF_REPO and
reports which of them raise a VIOLATION. Writes <seed dir>/result.json. Removes the scratch worktree."""
import json, os, subprocess, sys, shutil, tempfile
ENV = dict(os.environ, GOFLAGS="-mod=mod", GOPROXY="off", GOSUMDB="off", GOTOOLCHAIN="local")
# VERIF_ROOT: run the checks of a frozen copy of /verif (check, plan.json, known_findings.txt, harness/) so that the harness can
# be worked on while a long batch of seeded changes is being confirmed
ROOT = os.environ.get("VERIF_ROOT", "/verif")
def sh(cmd, cwd=None, env=ENV, timeout=3000):
    p = subprocess.run(cmd, shell=True, cwd=cwd, env=env, stdout=subprocess.PIPE, stderr=subprocess.STDOUT, text=True, timeout=timeout)
    return p.returncode, p.stdout
def main():
    d = sys.argv[1].rstrip("/")
    meta = json.load(open(os.path.join(d, "meta.json")))
    if "demonstration" in meta:  # a kept seed under /verif/seeded
        meta.setdefault("demo_pkg_dir", meta["demonstration"].get("package_dir"))
        meta.setdefault("demo_cmd", meta["demonstration"].get("command"))
    props = sys.argv[2:] or [meta["property"]]
    skip_confirm = os.environ.get("SKIP_CONFIRM") == "1"
    wt = tempfile.mkdtemp(prefix="seedwt-", dir="/tmp")
    os.rmdir(wt)
    res = {"seed": d, "property": meta["property"], "variant": meta.get("variant")}
    try:
        rc, out = sh("git -C /repo worktree add -q --detach %s HEAD" % wt)
        assert rc == 0, out
        rc, out = sh("git apply --3way %s/patch.diff || git apply %s/patch.diff" % (d, d), cwd=wt)
        res["applies"] = rc == 0
        if rc != 0:
            res["apply_output"] = out[-2000:]
            return res
        rc, out = sh("go build ./...", cwd=wt)
        res["builds"] = rc == 0
        if rc != 0:
            res["build_output"] = out[-2000:]
            return res
        if not skip_confirm:
            rc, out = sh("go test -vet=off -count=1 -timeout 25m ./...", cwd=wt)
            res["suite_passes_with_change"] = rc == 0
            if rc != 0:
                res["suite_output"] = out[-3000:]
            pkg = meta.get("demo_pkg_dir", "integration").strip("./") or "."
            demos = [f for f in os.listdir(d) if f.endswith("_test.go")]
            for f in demos:
                shutil.copy(os.path.join(d, f), os.path.join(wt, pkg, f))
            cmd = meta.get("demo_cmd") or "go test -vet=off -count=1 -run TestSeedDemo ./%s/" % pkg
            rc, out = sh(cmd, cwd=wt)
            res["demo_fails_with_change"] = rc != 0
            res["demo_output_with_change"] = out[-1500:]
            # take the change out and put it back with a patch file of this worktree (NOT git stash: the stash is shared by all
            # worktrees of /repo, and two of these runs side by side would pop each other's change)
            sh("git diff --binary HEAD > .seedrun-change.diff && git apply -R .seedrun-change.diff", cwd=wt)
            rc, out = sh(cmd, cwd=wt)
            res["demo_passes_without_change"] = rc == 0
            if rc != 0:
                res["demo_output_without_change"] = out[-1500:]
            rc2, out2 = sh("git apply .seedrun-change.diff && rm -f .seedrun-change.diff", cwd=wt)
            assert rc2 == 0, out2
            for f in demos:
                os.remove(os.path.join(wt, pkg, f))
        res["checks"] = {}
        for p in props:
            if p == "none":
                continue
            rc, out = sh("./check %s quick" % p, cwd=ROOT, env=dict(ENV, VERIF_REPO=wt))
            lines = [l for l in out.splitlines() if l.startswith(("VIOLATION", "  key:", "KNOWN", "BROKEN", "INCONCLUSIVE", "BUILD"))]
            res["checks"][p] = {"exit": rc, "lines": lines[:12]}
    finally:
        sh("git -C /repo worktree remove --force %s" % wt)
        import hashlib
        tag = hashlib.sha1(wt.encode()).hexdigest()[:8]
        sh("rm -rf %s/harness/bin-%s %s/harness/alt-%s.mod %s/harness/alt-%s.sum %s/work/*-%s" % (ROOT, tag, ROOT, tag, ROOT, tag, ROOT, tag))
        json.dump(res, open(os.environ.get("SEEDRUN_OUT") or os.path.join(d, "result.json"), "w"), indent=1)
    return res
if __name__ == "__main__":
    r = main()
    print(json.dumps({k: v for k, v in r.items() if not k.endswith("output") and not k.startswith("demo_output")}, indent=1))
