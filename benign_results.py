#!/usr/bin/env python3
"""Summarises benign/*/benign.json (written by benign_run.sh) into benign/RESULTS.md."""
import json, glob, os
rows = []
for d in sorted(glob.glob('/verif/benign/C*/')):
    n = os.path.basename(d.rstrip('/'))
    f = d + 'benign.json'
    if not os.path.exists(f):
        rows.append("| %s | not run | |" % n)
        continue
    r = json.load(open(f))
    bad = {p: v['exit'] for p, v in (r.get('checks') or {}).items() if v['exit'] != 0}
    m = json.load(open(d + 'meta.json'))
    what = " ".join((m.get('summary') or '').split())[:160].replace('|', '/')
    rows.append("| %s | %s | %s |" % (n, "silent under all %d checks" % len(r.get('checks') or {}) if r.get('applies') and r.get('builds') and not bad else "ALARM " + json.dumps(bad), what))
open('/verif/benign/RESULTS.md', 'w').write("# Benign changes: last run of all twenty quick checks against each\n\nWritten by benign_results.py from benign/*/benign.json (benign_run.sh). The run used the harness as committed just before the request-object expiry probe of C07 was added; C07 was then run once more against all 79 changes with the final harness (silent), and the two changes that had raised alarms (C08-P, C08-Q) and the re-cut C09-L were run again in full. After the last repair in /repo (969c626, F39) C11, C13 and C17 - the checks that got a probe with it - were run against all 79 changes once more (silent), and the four patches re-cut for that repair (C07-Q, C11-L, C11-Q, C17-K) in full. Round 8 extended C17's cast (case-twin clients): C17 was run against all 79 changes again (silent); that pass showed that C17-P had not built since F39 (its earlier results had been carried forward), so it was re-cut against HEAD with F39 kept (suite passes) and run under all twenty checks (silent).\n\n| Change | Result | What it changes |\n|---|---|---|\n" + "\n".join(rows) + "\n")
print(len(rows), "rows;", sum(1 for r in rows if 'silent' in r), "silent")
