#!/bin/bash
# ./run_all.sh <tier> [seed]  — every check once; prints one line per property
tier=${1:-quick}; export VERIF_SEED=${2:-1}
for i in 01 02 03 04 05 06 07 08 09 10 11 12 13 14 15 16 17 18 19 20; do
  out=$(./check C$i $tier 2>&1); rc=$?
  echo "C$i rc=$rc $(echo "$out" | grep -E '^C[0-9]+ ' | head -1)"
  echo "$out" | grep -E "VIOLATION|  key:|BROKEN|INCONCLUSIVE|BUILD FAILED" | head -5
done
