// Package spec holds independent specifications of the documented scope and
// audience policies, written from the README and the property statement (not
// from the implementation). Each answers three-valued: Yes, No or Unknown
// where the documentation does not determine the outcome.
package spec

import (
	"net/url"
	"strings"
)

type V int

const (
	No V = iota
	Yes
	Unknown
)

func (v V) String() string { return [...]string{"no", "yes", "unknown"}[v] }

// Exact: equality with one of the entries.
func Exact(haystack []string, needle string) V {
	for _, h := range haystack {
		if h == needle {
			return Yes
		}
	}
	return No
}

// Hierarchic: a parent covers itself and its dotted children.
func Hierarchic(haystack []string, needle string) V {
	for _, h := range haystack {
		if h == needle || strings.HasPrefix(needle, h+".") {
			return Yes
		}
	}
	return No
}

// wildcardOne decides one pattern against one needle.
func wildcardOne(pattern, needle string) V {
	if pattern == needle {
		// identical strings always match ("To request users.*, a client must have exactly users.*")
		// unless a wildcard would have to match an empty segment
		P := strings.Split(pattern, ".")
		for _, s := range P {
			if s == "" {
				return Unknown // empty segments: undocumented
			}
		}
		return Yes
	}
	P := strings.Split(pattern, ".")
	N := strings.Split(needle, ".")
	if len(P) > len(N) {
		return No
	}
	for k := 0; k < len(P); k++ {
		last := k == len(P)-1
		if P[k] == "*" {
			if N[k] == "" {
				return No // a wildcard matches one NON-EMPTY segment
			}
			continue
		}
		if last && len(P) < len(N) {
			return No // only a trailing wildcard may swallow further segments
		}
		if P[k] != N[k] {
			return No
		}
	}
	if len(P) < len(N) {
		// trailing wildcard matched N[len(P)-1] (non-empty) and "one or more" further segments follow;
		// whether those may be empty is not documented
		for _, s := range N[len(P):] {
			if s == "" {
				return Unknown
			}
		}
	}
	return Yes
}

// Wildcard: `*` = one non-empty segment, a trailing `*` = one or more segments.
func Wildcard(haystack []string, needle string) V {
	res := No
	for _, h := range haystack {
		switch wildcardOne(h, needle) {
		case Yes:
			return Yes
		case Unknown:
			res = Unknown
		}
	}
	return res
}

// Scope dispatches on a strategy name.
func Scope(strategy string, haystack []string, needle string) V {
	switch strategy {
	case "exact":
		return Exact(haystack, needle)
	case "hierarchic":
		return Hierarchic(haystack, needle)
	}
	return Wildcard(haystack, needle)
}

// AudienceOne: scheme and host equal, path equal or a prefix ending at a segment boundary.
func AudienceOne(allowed, requested string) V {
	hu, err := url.Parse(allowed)
	if err != nil {
		return Unknown
	}
	nu, err := url.Parse(requested)
	if err != nil {
		return Unknown
	}
	if hu.Scheme == "" || hu.Host == "" || nu.Scheme == "" || nu.Host == "" {
		return Unknown // not an absolute URL: undocumented
	}
	if hu.Scheme != nu.Scheme || hu.Host != nu.Host {
		return No
	}
	hp := strings.TrimRight(hu.Path, "/")
	np := nu.Path
	if np == hu.Path || np == hp {
		return Yes
	}
	if strings.HasPrefix(np, hp+"/") {
		return Yes
	}
	return No
}

// Audience: every requested audience must be covered by some allowed one.
func Audience(strategy string, allowed, requested []string) V {
	res := Yes
	for _, r := range requested {
		found := No
		for _, a := range allowed {
			var v V
			if strategy == "exact" {
				v = No
				if a == r {
					v = Yes
				}
			} else {
				v = AudienceOne(a, r)
			}
			if v == Yes {
				found = Yes
				break
			}
			if v == Unknown {
				found = Unknown
			}
		}
		if found == No {
			return No
		}
		if found == Unknown {
			res = Unknown
		}
	}
	return res
}
