package world

import (
	"fmt"
	"sync"
	"time"
)

// Sched runs several operations as goroutines but lets exactly one of them
// proceed at a time, switching only at storage calls (the store's Gate).
// The sequence of choices fully determines the interleaving.
type Sched struct {
	W       *World
	Skip    map[string]bool // storage methods that are not scheduling points
	mu      sync.Mutex
	parked  map[int]chan struct{}
	events  chan schedEvent
	opOfG   map[int]int // world op id -> logical op index
	Trace   []string
	Choices []int // number of options at each decision point (filled during a run)
	Taken   []int // choice taken at each decision point
	Hung    bool
}

type schedEvent struct {
	op     int // logical op index
	method string
	done   bool
}

// Run executes ops under the schedule given by prefix (beyond the prefix the
// first parked op is chosen). Each op receives a function that binds the
// world op id of its first driver call to its logical index.
func (s *Sched) Run(ops []func(), prefix []int) {
	s.parked = map[int]chan struct{}{}
	s.events = make(chan schedEvent, 64)
	s.Trace, s.Choices, s.Taken = nil, nil, nil
	cur := -1
	var curMu sync.Mutex
	s.W.Store.Gate = func(wop int, method string) {
		if s.Skip[method] {
			return
		}
		curMu.Lock()
		me := cur
		curMu.Unlock()
		if me < 0 {
			return
		}
		ch := make(chan struct{})
		s.mu.Lock()
		s.parked[me] = ch
		s.mu.Unlock()
		s.events <- schedEvent{op: me, method: method}
		<-ch
	}
	defer func() { s.W.Store.Gate = nil }()
	active := map[int]bool{}
	lastMethod := map[int]string{}
	wait := func() (schedEvent, bool) {
		select {
		case e := <-s.events:
			return e, true
		case <-time.After(20 * time.Second):
			return schedEvent{}, false
		}
	}
	// start every op and let it run to its first gate (or to completion)
	for i, f := range ops {
		i, f := i, f
		active[i] = true
		curMu.Lock()
		cur = i
		curMu.Unlock()
		go func() {
			defer func() { s.events <- schedEvent{op: i, done: true} }()
			f()
		}()
		e, ok := wait()
		if !ok {
			s.Hung = true
			return
		}
		if e.done {
			delete(active, e.op)
			s.Trace = append(s.Trace, fmt.Sprintf("op%d ran to completion without storage calls", e.op))
		} else {
			lastMethod[e.op] = e.method
		}
	}
	step := 0
	for len(active) > 0 {
		var opts []int
		for i := 0; i < len(ops); i++ {
			if active[i] {
				opts = append(opts, i)
			}
		}
		choice := 0
		if step < len(prefix) {
			choice = prefix[step]
			if choice >= len(opts) {
				choice = len(opts) - 1
			}
		}
		s.Choices = append(s.Choices, len(opts))
		s.Taken = append(s.Taken, choice)
		step++
		op := opts[choice]
		s.Trace = append(s.Trace, fmt.Sprintf("op%d:%s", op, lastMethod[op]))
		curMu.Lock()
		cur = op
		curMu.Unlock()
		s.mu.Lock()
		ch := s.parked[op]
		delete(s.parked, op)
		s.mu.Unlock()
		close(ch)
		e, ok := wait()
		if !ok {
			s.Hung = true
			return
		}
		if e.done {
			delete(active, e.op)
		} else {
			lastMethod[e.op] = e.method
		}
	}
}

// NextPrefix advances a DFS over schedules: given the options and the choices
// taken in the last run it returns the next prefix, or nil when exhausted.
func NextPrefix(options, taken []int) []int {
	for i := len(taken) - 1; i >= 0; i-- {
		if taken[i]+1 < options[i] {
			p := append([]int(nil), taken[:i]...)
			return append(p, taken[i]+1)
		}
	}
	return nil
}
