// Package world builds a real fosite provider around an instrumented store
// and offers HTTP-level drivers for every endpoint. Nothing in here changes
// fosite: the store wrapper implements fosite's storage interfaces by
// delegation to storage.MemoryStore and records / injects / gates around each
// delegated call.
package world

import (
	"context"
	"encoding/json"
	"errors"
	"fmt"
	pkgerrors "github.com/pkg/errors"
	"net/url"
	"reflect"
	"sort"
	"strings"
	"sync"
	"time"
	"unsafe"

	"github.com/go-jose/go-jose/v3"

	"github.com/ory/fosite"
	"github.com/ory/fosite/storage"
)

type ctxKey int

const OpKey ctxKey = 1
const txKey ctxKey = 2

// OpID extracts the harness operation id that a driver put into the context.
func OpID(ctx context.Context) int {
	if v, ok := ctx.Value(OpKey).(int); ok {
		return v
	}
	return -1
}

// Call is one recorded storage call.
type Call struct {
	Seq     int
	Op      int
	Method  string
	Keys    []string   // string arguments (signatures, ids, codes, uris)
	Form    url.Values // form of the request handed to storage (if any)
	ReqID   string
	Client  string
	Err     string // "" ok, otherwise short class
	Write   bool
	Tx      bool // inside an open transaction (the call carried the transaction's context)
	Outside bool // a write performed while a transaction is open but WITHOUT the transaction's context
	Inject  string
}

func (c Call) String() string {
	return fmt.Sprintf("%s(%s)=%s", c.Method, strings.Join(c.Keys, ","), c.Err)
}

// Crash is the panic value used for injected crashes.
type Crash struct{ At string }

// Mode of the store wrapper.
type Mode struct {
	// DB: behave like a database: requests are deep-copied on write and on
	// read (serialisation), BeginTX/Commit/Rollback exist with snapshot
	// semantics. Without DB the wrapper is the pure reference MemoryStore
	// (pointer sharing, no transactions).
	DB bool
	// ContractDevice: InvalidateDeviceCodeSession marks instead of deleting and
	// GetDeviceCodeSession answers (request, ErrInvalidatedDeviceCode) as
	// handler/rfc8628/storage.go documents.
	ContractDevice bool
	// Hydrate (with DB): like a SQL store, a lookup unmarshals the stored session (a JSON document) INTO the session prototype
	// the caller passed and returns a request whose session is that very object (the documented meaning of the session argument of
	// Get*Session). The reference store ignores the argument.
	Hydrate bool
	// WrapErrors: like stores in the field, every error leaves the store annotated (pkg/errors WithStack): callers have to
	// use errors.Is / errors.As, comparing with == does not work.
	WrapErrors bool
	// RowCount: revoking by request id reports fosite.ErrNotFound when no record matched (an UPDATE/DELETE that affected zero
	// rows), which the handlers explicitly tolerate; the reference store answers nil.
	RowCount bool
	// TTL: access-token rows are evicted once their own expiry has passed (a TTL index / janitor), before the next call is
	// served. Only sound for sequential use (the maps are touched without the reference store's locks).
	TTL bool
	// StrictTx: like database/sql, Commit and Rollback only work with the context BeginTX returned; called with any other
	// context they fail ("no transaction in context") and the transaction stays open.
	StrictTx bool
	// LinkRotate: like a SQL store, RotateRefreshToken deactivates exactly the presented refresh token and deletes exactly the
	// access token that was recorded as issued alongside it (the accessSignature argument of CreateRefreshTokenSession); the
	// reference store ignores that link and sweeps by request id.
	LinkRotate bool
}

// IStore wraps the reference MemoryStore.
type IStore struct {
	Mem  *storage.MemoryStore
	Mode Mode

	mu     sync.Mutex
	seq    int
	Record bool
	Calls  []Call
	// Pre is consulted before each delegated call (after gating). A non-nil
	// error is returned to fosite instead of performing the call. It may panic
	// with Crash{} to simulate a process crash.
	Pre func(c *Call) error
	// Gate, if set, blocks before every call until the scheduler lets the
	// calling operation proceed.
	Gate func(op int, method string)
	// Tap, if set, receives every finished call (independent of Record; used by the taint monitor).
	Tap func(c Call)

	invalidDev map[string]fosite.DeviceRequester
	links      map[string]string // refresh-token signature -> signature of the access token issued alongside it (LinkRotate)

	// transaction state (DB mode; sequential use only)
	txOpen   bool
	txID     interface{}
	txSnap   *snapshot
	TxEvents []string // begin, commit-ok, commit-fail, rollback-ok, rollback-fail, write-ok, write-fail (per op, reset by ResetCalls)
}

// TxStore is IStore plus storage.Transactional.
type TxStore struct{ *IStore }

func NewIStore(mem *storage.MemoryStore, mode Mode) *IStore {
	return &IStore{Mem: mem, Mode: mode, invalidDev: map[string]fosite.DeviceRequester{}, links: map[string]string{}}
}

func (s *IStore) ResetCalls() {
	s.mu.Lock()
	s.Calls = nil
	s.TxEvents = nil
	s.mu.Unlock()
}

func (s *IStore) TakeCalls() []Call {
	s.mu.Lock()
	c := s.Calls
	s.Calls = nil
	s.mu.Unlock()
	return c
}

func errClass(err error) string {
	if err == nil {
		return ""
	}
	switch {
	case errors.Is(err, fosite.ErrInvalidatedAuthorizeCode):
		return "invalidated_code"
	case errors.Is(err, fosite.ErrInvalidatedDeviceCode):
		return "invalidated_device"
	case errors.Is(err, fosite.ErrSerializationFailure):
		return "serialization"
	case errors.Is(err, fosite.ErrNotFound):
		return "not_found"
	case errors.Is(err, fosite.ErrInactiveToken):
		return "inactive"
	case errors.Is(err, fosite.ErrJTIKnown):
		return "jti_known"
	}
	var e *fosite.RFC6749Error
	if errors.As(err, &e) {
		return e.ErrorField
	}
	return "error"
}

var writeMethods = map[string]bool{
	"SetClientAssertionJWT": true, "CreateAuthorizeCodeSession": true, "InvalidateAuthorizeCodeSession": true,
	"CreatePKCERequestSession": true, "DeletePKCERequestSession": true, "CreateAccessTokenSession": true,
	"DeleteAccessTokenSession": true, "CreateRefreshTokenSession": true, "DeleteRefreshTokenSession": true,
	"RevokeRefreshToken": true, "RevokeAccessToken": true, "RotateRefreshToken": true,
	"CreateOpenIDConnectSession": true, "DeleteOpenIDConnectSession": true, "MarkJWTUsedForTime": true,
	"CreatePARSession": true, "DeletePARSession": true, "CreateDeviceAuthSession": true, "InvalidateDeviceCodeSession": true,
}

// TokenTableWrites are the writes that create, change or remove a code or
// token record (used by the "no state change" clauses).
var TokenTableWrites = map[string]bool{
	"CreateAuthorizeCodeSession": true, "InvalidateAuthorizeCodeSession": true,
	"CreatePKCERequestSession": true, "DeletePKCERequestSession": true, "CreateAccessTokenSession": true,
	"DeleteAccessTokenSession": true, "CreateRefreshTokenSession": true, "DeleteRefreshTokenSession": true,
	"RevokeRefreshToken": true, "RevokeAccessToken": true, "RotateRefreshToken": true,
	"CreateOpenIDConnectSession": true, "DeleteOpenIDConnectSession": true,
	"CreatePARSession": true, "DeletePARSession": true, "CreateDeviceAuthSession": true, "InvalidateDeviceCodeSession": true,
}

// enter performs gating, recording preparation and injection. It returns the
// call record and an injected error (or nil).
func (s *IStore) enter(ctx context.Context, method string, req fosite.Requester, keys ...string) (*Call, error) {
	op := OpID(ctx)
	if g := s.Gate; g != nil {
		g(op, method)
	}
	if s.Mode.TTL {
		s.evictExpired()
	}
	c := &Call{Op: op, Method: method, Keys: keys, Write: writeMethods[method]}
	if req != nil {
		c.ReqID = req.GetID()
		if cl := req.GetClient(); cl != nil {
			c.Client = cl.GetID()
		}
		c.Form = url.Values{}
		for k, v := range req.GetRequestForm() {
			c.Form[k] = append([]string(nil), v...)
		}
	}
	s.mu.Lock()
	s.seq++
	c.Seq = s.seq
	marked := ctx.Value(txKey) != nil && ctx.Value(txKey) == s.txID
	c.Tx = s.txOpen && marked
	c.Outside = s.txOpen && !marked && c.Write
	pre := s.Pre
	s.mu.Unlock()
	if pre != nil {
		if err := pre(c); err != nil {
			c.Inject = errClass(err)
			return c, err
		}
	}
	return c, nil
}

// evictExpired implements Mode.TTL.
func (s *IStore) evictExpired() {
	now := time.Now()
	for sig, r := range s.Mem.AccessTokens {
		if r == nil || r.GetSession() == nil {
			continue
		}
		if exp := r.GetSession().GetExpiresAt(fosite.AccessToken); !exp.IsZero() && exp.Before(now) {
			delete(s.Mem.AccessTokens, sig)
			for id, sg := range s.Mem.AccessTokenRequestIDs {
				if sg == sig {
					delete(s.Mem.AccessTokenRequestIDs, id)
				}
			}
		}
	}
}

func (s *IStore) leave(c *Call, err error) {
	c.Err = errClass(err)
	s.mu.Lock()
	if s.Record {
		s.Calls = append(s.Calls, *c)
	}
	if s.Tap != nil {
		s.Tap(*c)
	}
	if c.Tx && c.Method != "Commit" && c.Method != "Rollback" && c.Method != "BeginTX" {
		switch {
		case c.Write && err == nil:
			s.TxEvents = append(s.TxEvents, "write-ok")
		case c.Write:
			s.TxEvents = append(s.TxEvents, "write-fail")
		case err != nil && c.Inject != "":
			s.TxEvents = append(s.TxEvents, "read-fail")
		}
	}
	s.mu.Unlock()
}

// exec performs a write on the live tables and, when the write was issued outside the open transaction (it
// did not carry the transaction's context), also on the snapshot: a database applies such a write at once and
// a later rollback of the transaction does not undo it.
func (s *IStore) exec(c *Call, f func(m *storage.MemoryStore) error) error {
	err := f(s.Mem)
	if err == nil && c.Outside && s.txSnap != nil {
		_ = f(s.txSnap.asStore())
		s.mu.Lock()
		s.TxEvents = append(s.TxEvents, "write-outside-tx:"+c.Method)
		s.mu.Unlock()
	}
	return err
}

// ---- deep copies (DB mode) ------------------------------------------------

func cloneArgs(a fosite.Arguments) fosite.Arguments {
	if a == nil {
		return nil
	}
	return append(fosite.Arguments{}, a...)
}

func cloneForm(f url.Values) url.Values {
	if f == nil {
		return nil
	}
	o := url.Values{}
	for k, v := range f {
		o[k] = append([]string(nil), v...)
	}
	return o
}

func cloneRequest(r *fosite.Request) fosite.Request {
	o := *r
	o.RequestedScope = cloneArgs(r.RequestedScope)
	o.GrantedScope = cloneArgs(r.GrantedScope)
	o.RequestedAudience = cloneArgs(r.RequestedAudience)
	o.GrantedAudience = cloneArgs(r.GrantedAudience)
	o.Form = cloneForm(r.Form)
	if !nilish(r.Session) {
		o.Session = r.Session.Clone()
	}
	return o
}

// CloneRequester deep-copies the request types fosite hands to storage.
func CloneRequester(r fosite.Requester) fosite.Requester {
	switch t := r.(type) {
	case nil:
		return nil
	case *fosite.Request:
		o := cloneRequest(t)
		return &o
	case *fosite.AccessRequest:
		o := *t
		o.GrantTypes = cloneArgs(t.GrantTypes)
		o.HandledGrantType = cloneArgs(t.HandledGrantType)
		o.Request = cloneRequest(&t.Request)
		return &o
	case *fosite.AuthorizeRequest:
		o := *t
		o.ResponseTypes = cloneArgs(t.ResponseTypes)
		o.HandledResponseTypes = cloneArgs(t.HandledResponseTypes)
		if t.RedirectURI != nil {
			u := *t.RedirectURI
			o.RedirectURI = &u
		}
		o.Request = cloneRequest(&t.Request)
		return &o
	case *fosite.DeviceRequest:
		o := *t
		o.Request = cloneRequest(&t.Request)
		return &o
	}
	panic(fmt.Sprintf("CloneRequester: unknown requester type %T", r))
}

func (s *IStore) in(r fosite.Requester) fosite.Requester {
	if s.Mode.DB {
		return CloneRequester(r)
	}
	return r
}

func (s *IStore) out(r fosite.Requester) fosite.Requester {
	if !s.Mode.DB || r == nil {
		return r
	}
	// StoreAuthorizeCode / StoreRefreshToken wrap the requester; unwrap for copy.
	switch t := r.(type) {
	case storage.StoreAuthorizeCode:
		return CloneRequester(t.Requester)
	case storage.StoreRefreshToken:
		return CloneRequester(t.Requester)
	}
	if v := reflect.ValueOf(r); v.Kind() == reflect.Ptr && v.IsNil() {
		return r
	}
	return CloneRequester(r)
}

// w implements Mode.WrapErrors for an error leaving the store.
func (s *IStore) w(err error) error {
	if err == nil || !s.Mode.WrapErrors {
		return err
	}
	return pkgerrors.WithStack(err)
}

// hydrate implements Mode.Hydrate for a request leaving the store.
func (s *IStore) hydrate(r fosite.Requester, proto fosite.Session) fosite.Requester {
	if !s.Mode.DB || !s.Mode.Hydrate || proto == nil || r == nil {
		return r
	}
	if v := reflect.ValueOf(r); v.Kind() == reflect.Ptr && v.IsNil() {
		return r
	}
	src := r.GetSession()
	if src == nil {
		return r
	}
	dv, sv := reflect.ValueOf(proto), reflect.ValueOf(src)
	if dv.Kind() != reflect.Ptr || sv.Kind() != reflect.Ptr || dv.IsNil() || sv.IsNil() || dv.Type() != sv.Type() {
		return r // a prototype of another type cannot receive this record
	}
	// exactly what a SQL store does: the stored session is a JSON document that is unmarshalled into the prototype
	// (fields present in the document overwrite, map entries are merged, everything else in the prototype stays)
	b, err := json.Marshal(src)
	if err != nil {
		return r
	}
	if err := json.Unmarshal(b, proto); err != nil {
		return r
	}
	r.SetSession(proto)
	return r
}

// ---- fosite.ClientManager ---------------------------------------------------

func (s *IStore) GetClient(ctx context.Context, id string) (fosite.Client, error) {
	c, e := s.enter(ctx, "GetClient", nil, id)
	if e != nil {
		s.leave(c, e)
		return nil, s.w(e)
	}
	r, err := s.Mem.GetClient(ctx, id)
	s.leave(c, err)
	return r, s.w(err)
}

func (s *IStore) ClientAssertionJWTValid(ctx context.Context, jti string) error {
	c, e := s.enter(ctx, "ClientAssertionJWTValid", nil, jti)
	if e != nil {
		s.leave(c, e)
		return s.w(e)
	}
	err := s.Mem.ClientAssertionJWTValid(ctx, jti)
	s.leave(c, err)
	return s.w(err)
}

func (s *IStore) SetClientAssertionJWT(ctx context.Context, jti string, exp time.Time) error {
	c, e := s.enter(ctx, "SetClientAssertionJWT", nil, jti)
	if e != nil {
		s.leave(c, e)
		return s.w(e)
	}
	err := s.exec(c, func(m *storage.MemoryStore) error { return m.SetClientAssertionJWT(ctx, jti, exp) })
	s.leave(c, err)
	return s.w(err)
}

// ---- authorize codes ------------------------------------------------------

func (s *IStore) CreateAuthorizeCodeSession(ctx context.Context, code string, req fosite.Requester) error {
	c, e := s.enter(ctx, "CreateAuthorizeCodeSession", req, code)
	if e != nil {
		s.leave(c, e)
		return s.w(e)
	}
	err := s.exec(c, func(m *storage.MemoryStore) error { return m.CreateAuthorizeCodeSession(ctx, code, s.in(req)) })
	s.leave(c, err)
	return s.w(err)
}

func (s *IStore) GetAuthorizeCodeSession(ctx context.Context, code string, sess fosite.Session) (fosite.Requester, error) {
	c, e := s.enter(ctx, "GetAuthorizeCodeSession", nil, code)
	if e != nil {
		s.leave(c, e)
		return nil, s.w(e)
	}
	r, err := s.Mem.GetAuthorizeCodeSession(ctx, code, sess)
	s.leave(c, err)
	return s.hydrate(s.out(r), sess), s.w(err)
}

func (s *IStore) InvalidateAuthorizeCodeSession(ctx context.Context, code string) error {
	c, e := s.enter(ctx, "InvalidateAuthorizeCodeSession", nil, code)
	if e != nil {
		s.leave(c, e)
		return s.w(e)
	}
	err := s.exec(c, func(m *storage.MemoryStore) error { return m.InvalidateAuthorizeCodeSession(ctx, code) })
	s.leave(c, err)
	return s.w(err)
}

// ---- PKCE -------------------------------------------------------------------

func (s *IStore) CreatePKCERequestSession(ctx context.Context, sig string, req fosite.Requester) error {
	c, e := s.enter(ctx, "CreatePKCERequestSession", req, sig)
	if e != nil {
		s.leave(c, e)
		return s.w(e)
	}
	err := s.exec(c, func(m *storage.MemoryStore) error { return m.CreatePKCERequestSession(ctx, sig, s.in(req)) })
	s.leave(c, err)
	return s.w(err)
}

func (s *IStore) GetPKCERequestSession(ctx context.Context, sig string, sess fosite.Session) (fosite.Requester, error) {
	c, e := s.enter(ctx, "GetPKCERequestSession", nil, sig)
	if e != nil {
		s.leave(c, e)
		return nil, s.w(e)
	}
	r, err := s.Mem.GetPKCERequestSession(ctx, sig, sess)
	s.leave(c, err)
	return s.hydrate(s.out(r), sess), s.w(err)
}

func (s *IStore) DeletePKCERequestSession(ctx context.Context, sig string) error {
	c, e := s.enter(ctx, "DeletePKCERequestSession", nil, sig)
	if e != nil {
		s.leave(c, e)
		return s.w(e)
	}
	err := s.exec(c, func(m *storage.MemoryStore) error { return m.DeletePKCERequestSession(ctx, sig) })
	s.leave(c, err)
	return s.w(err)
}

// ---- access tokens ----------------------------------------------------------

func (s *IStore) CreateAccessTokenSession(ctx context.Context, sig string, req fosite.Requester) error {
	c, e := s.enter(ctx, "CreateAccessTokenSession", req, sig)
	if e != nil {
		s.leave(c, e)
		return s.w(e)
	}
	err := s.exec(c, func(m *storage.MemoryStore) error { return m.CreateAccessTokenSession(ctx, sig, s.in(req)) })
	s.leave(c, err)
	return s.w(err)
}

func (s *IStore) GetAccessTokenSession(ctx context.Context, sig string, sess fosite.Session) (fosite.Requester, error) {
	c, e := s.enter(ctx, "GetAccessTokenSession", nil, sig)
	if e != nil {
		s.leave(c, e)
		return nil, s.w(e)
	}
	r, err := s.Mem.GetAccessTokenSession(ctx, sig, sess)
	s.leave(c, err)
	return s.hydrate(s.out(r), sess), s.w(err)
}

func (s *IStore) DeleteAccessTokenSession(ctx context.Context, sig string) error {
	c, e := s.enter(ctx, "DeleteAccessTokenSession", nil, sig)
	if e != nil {
		s.leave(c, e)
		return s.w(e)
	}
	err := s.exec(c, func(m *storage.MemoryStore) error { return m.DeleteAccessTokenSession(ctx, sig) })
	s.leave(c, err)
	return s.w(err)
}

// ---- refresh tokens ---------------------------------------------------------

func (s *IStore) CreateRefreshTokenSession(ctx context.Context, sig, accessSig string, req fosite.Requester) error {
	c, e := s.enter(ctx, "CreateRefreshTokenSession", req, sig, accessSig)
	if e != nil {
		s.leave(c, e)
		return s.w(e)
	}
	err := s.exec(c, func(m *storage.MemoryStore) error { return m.CreateRefreshTokenSession(ctx, sig, accessSig, s.in(req)) })
	if err == nil {
		s.mu.Lock()
		s.links[sig] = accessSig
		s.mu.Unlock()
	}
	s.leave(c, err)
	return s.w(err)
}

func (s *IStore) GetRefreshTokenSession(ctx context.Context, sig string, sess fosite.Session) (fosite.Requester, error) {
	c, e := s.enter(ctx, "GetRefreshTokenSession", nil, sig)
	if e != nil {
		s.leave(c, e)
		if errors.Is(e, fosite.ErrInactiveToken) {
			// the storage contract: ErrInactiveToken comes together with the stored request
			if r, _ := s.Mem.GetRefreshTokenSession(ctx, sig, sess); r != nil {
				return s.hydrate(s.out(r), sess), s.w(e)
			}
		}
		return nil, s.w(e)
	}
	r, err := s.Mem.GetRefreshTokenSession(ctx, sig, sess)
	s.leave(c, err)
	if r == nil {
		return nil, s.w(err)
	}
	return s.hydrate(s.out(r), sess), s.w(err)
}

func (s *IStore) DeleteRefreshTokenSession(ctx context.Context, sig string) error {
	c, e := s.enter(ctx, "DeleteRefreshTokenSession", nil, sig)
	if e != nil {
		s.leave(c, e)
		return s.w(e)
	}
	err := s.exec(c, func(m *storage.MemoryStore) error { return m.DeleteRefreshTokenSession(ctx, sig) })
	s.leave(c, err)
	return s.w(err)
}

func (s *IStore) RotateRefreshToken(ctx context.Context, requestID, sig string) error {
	c, e := s.enter(ctx, "RotateRefreshToken", nil, requestID, sig)
	if e != nil {
		s.leave(c, e)
		return s.w(e)
	}
	err := s.exec(c, func(m *storage.MemoryStore) error {
		if !s.Mode.LinkRotate {
			return m.RotateRefreshToken(ctx, requestID, sig)
		}
		// UPDATE refresh SET active=false WHERE signature=?; DELETE FROM access WHERE signature=<its access_token_signature>
		if _, err := m.GetRefreshTokenSession(ctx, sig, nil); err != nil {
			return err // not found, or already inactive: a conditional update that matched no row
		}
		if err := m.RevokeRefreshToken(ctx, requestID); err != nil { // the request-id index points at the presented (newest) token
			return err
		}
		s.mu.Lock()
		link := s.links[sig]
		s.mu.Unlock()
		if link != "" {
			return m.DeleteAccessTokenSession(ctx, link)
		}
		return nil
	})
	s.leave(c, err)
	return s.w(err)
}

func (s *IStore) RevokeRefreshToken(ctx context.Context, requestID string) error {
	c, e := s.enter(ctx, "RevokeRefreshToken", nil, requestID)
	if e != nil {
		s.leave(c, e)
		return s.w(e)
	}
	err := s.exec(c, func(m *storage.MemoryStore) error {
		if s.Mode.RowCount && !hasRequestID(m, requestID, true) {
			return fosite.ErrNotFound
		}
		return m.RevokeRefreshToken(ctx, requestID)
	})
	s.leave(c, err)
	return s.w(err)
}

func (s *IStore) RevokeAccessToken(ctx context.Context, requestID string) error {
	c, e := s.enter(ctx, "RevokeAccessToken", nil, requestID)
	if e != nil {
		s.leave(c, e)
		return s.w(e)
	}
	err := s.exec(c, func(m *storage.MemoryStore) error {
		if s.Mode.RowCount && !hasRequestID(m, requestID, false) {
			return fosite.ErrNotFound
		}
		return m.RevokeAccessToken(ctx, requestID)
	})
	s.leave(c, err)
	return s.w(err)
}

// hasRequestID reports whether a live refresh-token (or any access-token) record of the request id exists.
func hasRequestID(m *storage.MemoryStore, requestID string, refresh bool) bool {
	if refresh {
		for _, rel := range m.RefreshTokens {
			if rel.Requester != nil && rel.Requester.GetID() == requestID {
				return true
			}
		}
		return false
	}
	for _, r := range m.AccessTokens {
		if r != nil && r.GetID() == requestID {
			return true
		}
	}
	return false
}

// ---- resource owner ---------------------------------------------------------

func (s *IStore) Authenticate(ctx context.Context, name, secret string) (string, error) {
	c, e := s.enter(ctx, "Authenticate", nil, name, secret)
	if e != nil {
		s.leave(c, e)
		return "", s.w(e)
	}
	sub, err := s.Mem.Authenticate(ctx, name, secret)
	s.leave(c, err)
	return sub, s.w(err)
}

// ---- OpenID Connect ---------------------------------------------------------

func (s *IStore) CreateOpenIDConnectSession(ctx context.Context, code string, req fosite.Requester) error {
	c, e := s.enter(ctx, "CreateOpenIDConnectSession", req, code)
	if e != nil {
		s.leave(c, e)
		return s.w(e)
	}
	err := s.exec(c, func(m *storage.MemoryStore) error { return m.CreateOpenIDConnectSession(ctx, code, s.in(req)) })
	s.leave(c, err)
	return s.w(err)
}

func (s *IStore) GetOpenIDConnectSession(ctx context.Context, code string, req fosite.Requester) (fosite.Requester, error) {
	c, e := s.enter(ctx, "GetOpenIDConnectSession", nil, code)
	if e != nil {
		s.leave(c, e)
		return nil, s.w(e)
	}
	r, err := s.Mem.GetOpenIDConnectSession(ctx, code, req)
	s.leave(c, err)
	if req != nil {
		return s.hydrate(s.out(r), req.GetSession()), s.w(err)
	}
	return s.out(r), s.w(err)
}

func (s *IStore) DeleteOpenIDConnectSession(ctx context.Context, code string) error {
	c, e := s.enter(ctx, "DeleteOpenIDConnectSession", nil, code)
	if e != nil {
		s.leave(c, e)
		return s.w(e)
	}
	err := s.exec(c, func(m *storage.MemoryStore) error { return m.DeleteOpenIDConnectSession(ctx, code) })
	s.leave(c, err)
	return s.w(err)
}

// ---- RFC 7523 ---------------------------------------------------------------

func (s *IStore) GetPublicKey(ctx context.Context, issuer, subject, kid string) (*jose.JSONWebKey, error) {
	c, e := s.enter(ctx, "GetPublicKey", nil, issuer, subject, kid)
	if e != nil {
		s.leave(c, e)
		return nil, s.w(e)
	}
	r, err := s.Mem.GetPublicKey(ctx, issuer, subject, kid)
	s.leave(c, err)
	return r, s.w(err)
}

func (s *IStore) GetPublicKeys(ctx context.Context, issuer, subject string) (*jose.JSONWebKeySet, error) {
	c, e := s.enter(ctx, "GetPublicKeys", nil, issuer, subject)
	if e != nil {
		s.leave(c, e)
		return nil, s.w(e)
	}
	r, err := s.Mem.GetPublicKeys(ctx, issuer, subject)
	s.leave(c, err)
	return r, s.w(err)
}

func (s *IStore) GetPublicKeyScopes(ctx context.Context, issuer, subject, kid string) ([]string, error) {
	c, e := s.enter(ctx, "GetPublicKeyScopes", nil, issuer, subject, kid)
	if e != nil {
		s.leave(c, e)
		return nil, s.w(e)
	}
	r, err := s.Mem.GetPublicKeyScopes(ctx, issuer, subject, kid)
	s.leave(c, err)
	return r, s.w(err)
}

func (s *IStore) IsJWTUsed(ctx context.Context, jti string) (bool, error) {
	c, e := s.enter(ctx, "IsJWTUsed", nil, jti)
	if e != nil {
		s.leave(c, e)
		return false, s.w(e)
	}
	r, err := s.Mem.IsJWTUsed(ctx, jti)
	s.leave(c, err)
	return r, s.w(err)
}

func (s *IStore) MarkJWTUsedForTime(ctx context.Context, jti string, exp time.Time) error {
	c, e := s.enter(ctx, "MarkJWTUsedForTime", nil, jti)
	if e != nil {
		s.leave(c, e)
		return s.w(e)
	}
	err := s.exec(c, func(m *storage.MemoryStore) error { return m.MarkJWTUsedForTime(ctx, jti, exp) })
	s.leave(c, err)
	return s.w(err)
}

// ---- PAR --------------------------------------------------------------------

func (s *IStore) CreatePARSession(ctx context.Context, uri string, req fosite.AuthorizeRequester) error {
	c, e := s.enter(ctx, "CreatePARSession", req, uri)
	if e != nil {
		s.leave(c, e)
		return s.w(e)
	}
	if s.Mode.DB {
		req = CloneRequester(req).(fosite.AuthorizeRequester)
	}
	err := s.exec(c, func(m *storage.MemoryStore) error { return m.CreatePARSession(ctx, uri, req) })
	s.leave(c, err)
	return s.w(err)
}

func (s *IStore) GetPARSession(ctx context.Context, uri string) (fosite.AuthorizeRequester, error) {
	c, e := s.enter(ctx, "GetPARSession", nil, uri)
	if e != nil {
		s.leave(c, e)
		return nil, s.w(e)
	}
	r, err := s.Mem.GetPARSession(ctx, uri)
	s.leave(c, err)
	if err == nil && s.Mode.DB {
		r = CloneRequester(r).(fosite.AuthorizeRequester)
	}
	return r, s.w(err)
}

func (s *IStore) DeletePARSession(ctx context.Context, uri string) error {
	c, e := s.enter(ctx, "DeletePARSession", nil, uri)
	if e != nil {
		s.leave(c, e)
		return s.w(e)
	}
	err := s.exec(c, func(m *storage.MemoryStore) error {
		if s.Mode.RowCount {
			// asked through the store's own interface (how it keys its table is its business)
			if _, err := m.GetPARSession(ctx, uri); errors.Is(err, fosite.ErrNotFound) {
				return fosite.ErrNotFound // DELETE affected zero rows
			}
		}
		return m.DeletePARSession(ctx, uri)
	})
	s.leave(c, err)
	return s.w(err)
}

// ---- RFC 8628 ---------------------------------------------------------------

func (s *IStore) CreateDeviceAuthSession(ctx context.Context, devSig, userSig string, req fosite.DeviceRequester) error {
	c, e := s.enter(ctx, "CreateDeviceAuthSession", req, devSig, userSig)
	if e != nil {
		s.leave(c, e)
		return s.w(e)
	}
	if s.Mode.DB {
		req = CloneRequester(req).(fosite.DeviceRequester)
	}
	err := s.exec(c, func(m *storage.MemoryStore) error { return m.CreateDeviceAuthSession(ctx, devSig, userSig, req) })
	s.leave(c, err)
	return s.w(err)
}

func (s *IStore) GetDeviceCodeSession(ctx context.Context, sig string, sess fosite.Session) (fosite.DeviceRequester, error) {
	c, e := s.enter(ctx, "GetDeviceCodeSession", nil, sig)
	if e != nil {
		s.leave(c, e)
		return nil, s.w(e)
	}
	if s.Mode.ContractDevice {
		s.mu.Lock()
		inv, ok := s.invalidDev[sig]
		s.mu.Unlock()
		if ok {
			s.leave(c, fosite.ErrInvalidatedDeviceCode)
			if s.Mode.DB {
				inv = CloneRequester(inv).(fosite.DeviceRequester)
			}
			return inv, fosite.ErrInvalidatedDeviceCode
		}
	}
	r, err := s.Mem.GetDeviceCodeSession(ctx, sig, sess)
	s.leave(c, err)
	if err == nil && s.Mode.DB {
		r = CloneRequester(r).(fosite.DeviceRequester)
		r = s.hydrate(r, sess).(fosite.DeviceRequester)
	}
	return r, s.w(err)
}

func (s *IStore) InvalidateDeviceCodeSession(ctx context.Context, sig string) error {
	c, e := s.enter(ctx, "InvalidateDeviceCodeSession", nil, sig)
	if e != nil {
		s.leave(c, e)
		return s.w(e)
	}
	if s.Mode.ContractDevice {
		if r, err := s.Mem.GetDeviceCodeSession(ctx, sig, nil); err == nil {
			s.mu.Lock()
			s.invalidDev[sig] = r
			s.mu.Unlock()
		}
	}
	err := s.exec(c, func(m *storage.MemoryStore) error { return m.InvalidateDeviceCodeSession(ctx, sig) })
	s.leave(c, err)
	return s.w(err)
}

// ---- transactions (TxStore only) ------------------------------------------

// snapshot is a private copy of a whole MemoryStore: every field that is not a lock, exported or not, is copied - maps and
// slices get fresh backing storage (recursively for containers of the storage package's own value types), stored requests are
// kept by reference (in DB mode they are immutable once stored). Nothing here names a table, so tables or indexes a later
// version of the reference store adds are snapshotted and rolled back like the ones it has today.
type snapshot struct {
	links      map[string]string
	mem        *storage.MemoryStore
	invalidDev map[string]fosite.DeviceRequester
}

// asStore exposes the snapshot as a MemoryStore so that store methods can be applied to it.
func (sn *snapshot) asStore() *storage.MemoryStore { return sn.mem }

func cpMap[K comparable, V any](m map[K]V) map[K]V {
	o := make(map[K]V, len(m))
	for k, v := range m {
		o[k] = v
	}
	return o
}

func isLockType(t reflect.Type) bool {
	n := t.String()
	return strings.Contains(n, "Mutex") || strings.Contains(n, "sync.") || strings.Contains(n, "atomic.")
}

// settable returns an assignable view of a struct field, unexported ones included.
func settable(f reflect.Value) reflect.Value {
	if f.CanSet() {
		return f
	}
	return reflect.NewAt(f.Type(), unsafe.Pointer(f.UnsafeAddr())).Elem()
}

// copyContainer copies maps, slices and the storage package's own structs / pointers to them; everything else (requests,
// clients, keys, scalars) is carried over as is.
func copyContainer(v reflect.Value, depth int) reflect.Value {
	if depth > 6 {
		return v
	}
	switch v.Kind() {
	case reflect.Map:
		if v.IsNil() {
			return v
		}
		o := reflect.MakeMapWithSize(v.Type(), v.Len())
		it := v.MapRange()
		for it.Next() {
			o.SetMapIndex(it.Key(), copyContainer(it.Value(), depth+1))
		}
		return o
	case reflect.Slice:
		if v.IsNil() {
			return v
		}
		o := reflect.MakeSlice(v.Type(), v.Len(), v.Len())
		for i := 0; i < v.Len(); i++ {
			o.Index(i).Set(copyContainer(v.Index(i), depth+1))
		}
		return o
	case reflect.Ptr:
		if v.IsNil() || v.Elem().Kind() != reflect.Struct || !strings.HasPrefix(v.Elem().Type().PkgPath(), "github.com/ory/fosite/storage") {
			return v
		}
		o := reflect.New(v.Elem().Type())
		copyStructFields(o.Elem(), v.Elem(), depth+1)
		return o
	case reflect.Struct:
		if !strings.HasPrefix(v.Type().PkgPath(), "github.com/ory/fosite/storage") {
			return v
		}
		o := reflect.New(v.Type()).Elem()
		// start from a plain value copy (keeps unexported scalars), then give containers their own storage
		o.Set(v)
		if v.CanAddr() {
			copyStructFields(o, v, depth+1)
		}
		return o
	}
	return v
}

func copyStructFields(dst, src reflect.Value, depth int) {
	for i := 0; i < src.NumField(); i++ {
		ft := src.Type().Field(i).Type
		if isLockType(ft) {
			continue
		}
		sf, df := src.Field(i), dst.Field(i)
		if !sf.CanInterface() {
			if !sf.CanAddr() {
				continue
			}
			sf = settable(sf)
		}
		settable(df).Set(copyContainer(sf, depth))
	}
}

func copyMemoryStore(dst, src *storage.MemoryStore) {
	copyStructFields(reflect.ValueOf(dst).Elem(), reflect.ValueOf(src).Elem(), 0)
}

// Snapshot copies every table (values are immutable in DB mode).
func (s *IStore) Snapshot() *snapshot {
	sn := &snapshot{mem: &storage.MemoryStore{}, invalidDev: cpMap(s.invalidDev), links: cpMap(s.links)}
	copyMemoryStore(sn.mem, s.Mem)
	return sn
}

func (s *IStore) Restore(sn *snapshot) {
	// restore from a copy, so that the snapshot itself stays pristine
	copyMemoryStore(s.Mem, sn.mem)
	s.invalidDev = cpMap(sn.invalidDev)
	s.links = cpMap(sn.links)
}

func (s TxStore) BeginTX(ctx context.Context) (context.Context, error) {
	c, e := s.enter(ctx, "BeginTX", nil)
	if e != nil {
		s.leave(c, e)
		return ctx, e
	}
	s.mu.Lock()
	if s.txOpen {
		s.TxEvents = append(s.TxEvents, "begin-nested")
	}
	s.txOpen = true
	s.txID = new(int)
	id := s.txID
	s.TxEvents = append(s.TxEvents, "begin")
	s.mu.Unlock()
	s.txSnap = s.Snapshot()
	s.leave(c, nil)
	return context.WithValue(ctx, txKey, id), nil
}

func (s TxStore) Commit(ctx context.Context) error {
	c, e := s.enter(ctx, "Commit", nil)
	s.mu.Lock()
	open := s.txOpen
	foreign := s.Mode.StrictTx && open && ctx.Value(txKey) != s.txID
	if foreign {
		s.TxEvents = append(s.TxEvents, "commit-with-foreign-context")
	}
	s.mu.Unlock()
	if foreign && e == nil {
		err := errors.New("commit: no transaction in this context")
		s.leave(c, err)
		return s.w(err)
	}
	if e != nil {
		// a failed commit: the database discards the transaction
		s.mu.Lock()
		s.TxEvents = append(s.TxEvents, "commit-fail")
		s.mu.Unlock()
		if open && s.txSnap != nil {
			s.Restore(s.txSnap)
		}
		s.mu.Lock()
		s.txOpen = false
		s.mu.Unlock()
		s.txSnap = nil
		s.leave(c, e)
		return e
	}
	s.mu.Lock()
	if !open {
		s.TxEvents = append(s.TxEvents, "commit-without-begin")
	} else {
		s.TxEvents = append(s.TxEvents, "commit-ok")
	}
	s.txOpen = false
	s.mu.Unlock()
	s.txSnap = nil
	s.leave(c, nil)
	return nil
}

func (s TxStore) Rollback(ctx context.Context) error {
	c, e := s.enter(ctx, "Rollback", nil)
	s.mu.Lock()
	open := s.txOpen
	foreign := s.Mode.StrictTx && open && ctx.Value(txKey) != s.txID
	if foreign {
		s.TxEvents = append(s.TxEvents, "rollback-with-foreign-context")
	}
	s.mu.Unlock()
	if foreign && e == nil {
		err := errors.New("rollback: no transaction in this context")
		s.leave(c, err)
		return s.w(err)
	}
	// whatever the driver reports, the database ends the transaction without applying it
	if open && s.txSnap != nil {
		s.Restore(s.txSnap)
	}
	s.mu.Lock()
	if !open {
		s.TxEvents = append(s.TxEvents, "rollback-without-begin")
	} else if e != nil {
		s.TxEvents = append(s.TxEvents, "rollback-fail")
	} else {
		s.TxEvents = append(s.TxEvents, "rollback-ok")
	}
	s.txOpen = false
	s.mu.Unlock()
	s.txSnap = nil
	s.leave(c, e)
	return e
}

// AbortOpenTx is what a database does when the connection dies (crash).
func (s *IStore) AbortOpenTx() bool {
	s.mu.Lock()
	open := s.txOpen
	s.txOpen = false
	s.mu.Unlock()
	if open && s.txSnap != nil {
		s.Restore(s.txSnap)
		s.txSnap = nil
	}
	return open
}

func (s *IStore) TxIsOpen() bool {
	s.mu.Lock()
	defer s.mu.Unlock()
	return s.txOpen
}

// ---- digest -----------------------------------------------------------------

// nilish: a nil interface, or a nil pointer / map / slice inside one (a struct value is never nil).
func nilish(v interface{}) bool {
	if v == nil {
		return true
	}
	switch rv := reflect.ValueOf(v); rv.Kind() {
	case reflect.Ptr, reflect.Map, reflect.Slice, reflect.Interface, reflect.Func, reflect.Chan:
		return rv.IsNil()
	}
	return false
}

func reqDigest(r fosite.Requester) string {
	if nilish(r) {
		return "<nil>"
	}
	var b strings.Builder
	fmt.Fprintf(&b, "id=%s", r.GetID())
	if c := r.GetClient(); c != nil {
		fmt.Fprintf(&b, " client=%s", c.GetID())
	}
	fmt.Fprintf(&b, " rs=%v gs=%v ra=%v ga=%v", []string(r.GetRequestedScopes()), []string(r.GetGrantedScopes()), []string(r.GetRequestedAudience()), []string(r.GetGrantedAudience()))
	if s := r.GetSession(); !nilish(s) {
		fmt.Fprintf(&b, " sub=%s", s.GetSubject())
		for _, tt := range []fosite.TokenType{fosite.AccessToken, fosite.RefreshToken, fosite.AuthorizeCode, fosite.IDToken, fosite.PushedAuthorizeRequestContext, fosite.UserCode, fosite.DeviceCode} {
			if e := s.GetExpiresAt(tt); !e.IsZero() {
				fmt.Fprintf(&b, " exp[%s]=%d", tt, e.Unix())
			}
		}
	}
	fmt.Fprintf(&b, " form=%s", r.GetRequestForm().Encode())
	if d, ok := r.(fosite.DeviceRequester); ok {
		fmt.Fprintf(&b, " ucs=%d", d.GetUserCodeState())
	}
	return b.String()
}

// Digest renders the code/token tables and indexes canonically.
// Only valid at quiescent points.
func (s *IStore) Digest() string {
	m := s.Mem
	var lines []string
	for k, v := range m.AuthorizeCodes {
		// whether the code is still redeemable is asked of the store, not read from its private flag
		_, gerr := m.GetAuthorizeCodeSession(context.Background(), k, nil)
		lines = append(lines, fmt.Sprintf("code %s active=%v %s", k, gerr == nil, reqDigest(v.Requester)))
	}
	for k, v := range m.IDSessions {
		lines = append(lines, fmt.Sprintf("oidc %s %s", k, reqDigest(v)))
	}
	for k, v := range m.AccessTokens {
		// a row the store itself no longer serves (a tombstone left by a revocation, say) is not an access token
		if _, gerr := m.GetAccessTokenSession(context.Background(), k, nil); errors.Is(gerr, fosite.ErrNotFound) {
			continue
		}
		lines = append(lines, fmt.Sprintf("at %s %s", k, reqDigest(v)))
	}
	for k, v := range m.RefreshTokens {
		_, gerr := m.GetRefreshTokenSession(context.Background(), k, nil)
		lines = append(lines, fmt.Sprintf("rt %s active=%v %s", k, gerr == nil, reqDigest(v.Requester)))
	}
	for k, v := range m.DeviceAuths {
		lines = append(lines, fmt.Sprintf("dev %s %s", k, reqDigest(v)))
	}
	for k, v := range m.PKCES {
		lines = append(lines, fmt.Sprintf("pkce %s %s", k, reqDigest(v)))
	}
	// the request-id indexes are private bookkeeping of the reference store (what they point at is in the tables above): a store
	// that prunes or keeps dangling entries differently has not changed any credential
	for k, v := range m.PARSessions {
		lines = append(lines, fmt.Sprintf("par %s %s", k, reqDigest(v)))
	}
	for k := range s.invalidDev {
		lines = append(lines, fmt.Sprintf("devinv %s", k))
	}
	sort.Strings(lines)
	return strings.Join(lines, "\n")
}

// DigestDiff lists lines present in only one of two digests.
func DigestDiff(a, b string) []string {
	as := map[string]bool{}
	for _, l := range strings.Split(a, "\n") {
		as[l] = true
	}
	var out []string
	bs := map[string]bool{}
	for _, l := range strings.Split(b, "\n") {
		bs[l] = true
		if !as[l] {
			out = append(out, "+ "+l)
		}
	}
	for l := range as {
		if !bs[l] {
			out = append(out, "- "+l)
		}
	}
	sort.Strings(out)
	return out
}

// StructuralDigest renders every non-lock field of a value (exported or not) canonically: map entries sorted by key, stored
// requests by their id, times left out. Two MemoryStores that went through the same operations have the same digest,
// whatever tables and indexes the store keeps.
func StructuralDigest(v interface{}) string {
	var b strings.Builder
	structuralDigest(&b, reflect.ValueOf(v), 0)
	return b.String()
}

func structuralDigest(b *strings.Builder, v reflect.Value, depth int) {
	if depth > 8 || !v.IsValid() {
		return
	}
	// a request object is rendered by its id; a record type of the store's own package that merely embeds a request (and may
	// carry flags next to it) is walked field by field
	ownRecord := func(t reflect.Type) bool {
		for t.Kind() == reflect.Ptr {
			t = t.Elem()
		}
		return strings.HasSuffix(t.PkgPath(), "/storage")
	}
	if v.CanInterface() && !ownRecord(v.Type()) && !(v.Kind() == reflect.Interface && !v.IsNil() && ownRecord(v.Elem().Type())) {
		switch x := v.Interface().(type) {
		case fosite.Requester:
			if x == nil || (reflect.ValueOf(x).Kind() == reflect.Ptr && reflect.ValueOf(x).IsNil()) {
				b.WriteString("req:nil")
			} else {
				b.WriteString("req:" + x.GetID())
			}
			return
		case time.Time:
			// an instant is rendered as set / not set: its value differs between the concurrent run and the sequential
			// replay, but whether a record carries one (redeemed at, revoked at) is state
			b.WriteString(map[bool]string{true: "t0", false: "t1"}[x.IsZero()])
			return
		}
	}
	switch v.Kind() {
	case reflect.Ptr, reflect.Interface:
		if v.IsNil() {
			b.WriteString("nil")
			return
		}
		structuralDigest(b, v.Elem(), depth+1)
	case reflect.Struct:
		if v.Type().String() == "time.Time" {
			zero := true
			for i := 0; i < v.NumField(); i++ {
				if !v.Field(i).IsZero() {
					zero = false
				}
			}
			b.WriteString(map[bool]string{true: "t0", false: "t1"}[zero])
			return
		}
		b.WriteString("{")
		for i := 0; i < v.NumField(); i++ {
			if isLockType(v.Type().Field(i).Type) {
				continue
			}
			f := v.Field(i)
			if !f.CanInterface() && f.CanAddr() {
				f = settable(f)
			}
			b.WriteString(v.Type().Field(i).Name + "=")
			structuralDigest(b, f, depth+1)
			b.WriteString(";")
		}
		b.WriteString("}")
	case reflect.Map:
		type kv struct{ k, v string }
		var es []kv
		it := v.MapRange()
		for it.Next() {
			var kb, vb strings.Builder
			structuralDigest(&kb, it.Key(), depth+1)
			structuralDigest(&vb, it.Value(), depth+1)
			es = append(es, kv{kb.String(), vb.String()})
		}
		sort.Slice(es, func(i, j int) bool { return es[i].k < es[j].k })
		b.WriteString("[")
		for _, e := range es {
			b.WriteString(e.k + ":" + e.v + ",")
		}
		b.WriteString("]")
	case reflect.Slice, reflect.Array:
		b.WriteString("(")
		for i := 0; i < v.Len(); i++ {
			structuralDigest(b, v.Index(i), depth+1)
			b.WriteString(",")
		}
		b.WriteString(")")
	case reflect.String:
		b.WriteString(v.String())
	case reflect.Bool:
		fmt.Fprint(b, v.Bool())
	case reflect.Int, reflect.Int8, reflect.Int16, reflect.Int32, reflect.Int64:
		fmt.Fprint(b, v.Int())
	case reflect.Uint, reflect.Uint8, reflect.Uint16, reflect.Uint32, reflect.Uint64:
		fmt.Fprint(b, v.Uint())
	default:
		b.WriteString(v.Kind().String())
	}
}
