//go:build !verif

package world

import (
	"time"

	"github.com/ory/fosite/storage"
)

// The lock-order monitor needs the verif build tag (hook in /repo/storage/memory_mutex_verif.go).
func LockOrderStart() bool                     { return false }
func LockOrderRegister(m *storage.MemoryStore) {}
func LockDelay(d time.Duration)                {}
func LockOrderReport() (int64, map[string]int64, []string, map[string]string) {
	return 0, nil, nil, nil
}
