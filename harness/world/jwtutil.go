package world

import (
	"crypto/hmac"
	"crypto/sha256"
	"encoding/base64"
	"encoding/json"
	"fmt"

	"github.com/go-jose/go-jose/v3"
)

// SignJWT signs claims with go-jose. alg "none" produces an unsecured JWT.
// header entries (kid, typ, ...) are added to the protected header.
func SignJWT(key interface{}, alg string, header map[string]interface{}, claims map[string]interface{}) string {
	payload, err := json.Marshal(claims)
	if err != nil {
		panic(err)
	}
	if alg == "none" {
		h := map[string]interface{}{"alg": "none"}
		for k, v := range header {
			h[k] = v
		}
		hb, _ := json.Marshal(h)
		return base64.RawURLEncoding.EncodeToString(hb) + "." + base64.RawURLEncoding.EncodeToString(payload) + "."
	}
	opts := &jose.SignerOptions{}
	for k, v := range header {
		opts = opts.WithHeader(jose.HeaderKey(k), v)
	}
	signer, err := jose.NewSigner(jose.SigningKey{Algorithm: jose.SignatureAlgorithm(alg), Key: key}, opts)
	if err != nil {
		panic(fmt.Sprintf("signer %s: %v", alg, err))
	}
	jws, err := signer.Sign(payload)
	if err != nil {
		panic(err)
	}
	s, err := jws.CompactSerialize()
	if err != nil {
		panic(err)
	}
	return s
}

// RawJWT builds header.payload.signature from literal JSON maps; sig is appended as given (already base64url) .
func RawJWT(header, claims map[string]interface{}, sig string) string {
	hb, _ := json.Marshal(header)
	pb, _ := json.Marshal(claims)
	return base64.RawURLEncoding.EncodeToString(hb) + "." + base64.RawURLEncoding.EncodeToString(pb) + "." + sig
}

// HS256Raw signs header.payload with an arbitrary byte secret (used for key-confusion attempts).
func HS256Raw(header, claims map[string]interface{}, secret []byte) string {
	hb, _ := json.Marshal(header)
	pb, _ := json.Marshal(claims)
	in := base64.RawURLEncoding.EncodeToString(hb) + "." + base64.RawURLEncoding.EncodeToString(pb)
	m := hmac.New(sha256.New, secret)
	m.Write([]byte(in))
	return in + "." + base64.RawURLEncoding.EncodeToString(m.Sum(nil))
}

// DecodeJWTPayload returns header and payload maps without verification.
func DecodeJWT(tok string) (header, payload map[string]interface{}, ok bool) {
	var parts []string
	start := 0
	for i := 0; i <= len(tok); i++ {
		if i == len(tok) || tok[i] == '.' {
			parts = append(parts, tok[start:i])
			start = i + 1
		}
	}
	if len(parts) != 3 {
		return nil, nil, false
	}
	hb, err1 := base64.RawURLEncoding.DecodeString(parts[0])
	pb, err2 := base64.RawURLEncoding.DecodeString(parts[1])
	if err1 != nil || err2 != nil {
		return nil, nil, false
	}
	if json.Unmarshal(hb, &header) != nil || json.Unmarshal(pb, &payload) != nil {
		return nil, nil, false
	}
	return header, payload, true
}

// PublicJWKS builds a key set from public keys with kids k0, k1, ...
func PublicJWKS(alg []string, pubs ...interface{}) *jose.JSONWebKeySet {
	set := &jose.JSONWebKeySet{}
	for i, p := range pubs {
		a := "RS256"
		if i < len(alg) {
			a = alg[i]
		}
		set.Keys = append(set.Keys, jose.JSONWebKey{Key: p, KeyID: fmt.Sprintf("k%d", i), Algorithm: a, Use: "sig"})
	}
	return set
}
