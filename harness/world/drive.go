package world

import (
	"context"
	"encoding/base64"
	"encoding/json"
	"errors"
	"fmt"
	"io"
	"net/http"
	"net/http/httptest"
	"net/url"
	"strings"

	"github.com/go-jose/go-jose/v3"
	"golang.org/x/net/html"

	"github.com/ory/fosite"
)

type body struct{ *strings.Reader }

func (body) Close() error            { return nil }
func newBody(s string) io.ReadCloser { return body{strings.NewReader(s)} }

// StubJWKS is a JWKSFetcherStrategy without background goroutines or network.
type StubJWKS struct{ W *World }

func (s StubJWKS) Resolve(ctx context.Context, location string, ignoreCache bool) (*jose.JSONWebKeySet, error) {
	if s.W.Fetch == nil {
		return nil, fosite.ErrServerError.WithHint("no fetcher")
	}
	code, b := s.W.Fetch(location)
	if code != 200 {
		return nil, fosite.ErrServerError.WithHintf("status %d", code)
	}
	var set jose.JSONWebKeySet
	if err := json.Unmarshal([]byte(b), &set); err != nil {
		return nil, fosite.ErrServerError.WithHint("bad jwks")
	}
	return &set, nil
}

// Auth describes how client credentials are attached to a request.
type Auth struct {
	Mode          string // "basic" | "post" | "both" | "none" | "raw" | "id_only" (client_id in body, no secret) | "query" (credentials in the URL)
	ID            string
	Secret        string
	RawHeader     string // Mode raw: the literal Authorization header
	NoEscape      bool   // basic: do not form-urlencode id/secret before base64
	Assertion     string // client_assertion (adds client_assertion_type)
	AssertionType string // override client_assertion_type
	BodySecret    string // additionally put client_secret (only) into the body
}

func Basic(id, secret string) Auth { return Auth{Mode: "basic", ID: id, Secret: secret} }
func Post(id, secret string) Auth  { return Auth{Mode: "post", ID: id, Secret: secret} }
func Public(id string) Auth        { return Auth{Mode: "id_only", ID: id} }

func (a Auth) apply(r *http.Request, form url.Values) {
	switch a.Mode {
	case "basic", "both":
		id, sec := a.ID, a.Secret
		if !a.NoEscape {
			id, sec = url.QueryEscape(id), url.QueryEscape(sec)
		}
		r.Header.Set("Authorization", "Basic "+base64.StdEncoding.EncodeToString([]byte(id+":"+sec)))
		if a.Mode == "both" {
			form.Set("client_id", a.ID)
			form.Set("client_secret", a.Secret)
		}
	case "post":
		form.Set("client_id", a.ID)
		form.Set("client_secret", a.Secret)
	case "id_only":
		form.Set("client_id", a.ID)
	case "query":
		// credentials in the request URI, nothing in the body (RFC 6749 2.3.1: MUST NOT be included in the request URI)
		q := r.URL.Query()
		q.Set("client_id", a.ID)
		q.Set("client_secret", a.Secret)
		r.URL.RawQuery = q.Encode()
		r.RequestURI = r.URL.RequestURI()
	case "raw":
		r.Header.Set("Authorization", a.RawHeader)
	case "none", "":
	}
	if a.BodySecret != "" {
		form.Set("client_secret", a.BodySecret)
	}
	if a.Assertion != "" || a.AssertionType != "" {
		t := a.AssertionType
		if t == "" {
			t = "urn:ietf:params:oauth:client-assertion-type:jwt-bearer"
		}
		form.Set("client_assertion_type", t)
		if a.Assertion != "" {
			form.Set("client_assertion", a.Assertion)
		}
	}
}

func postReq(path string, form url.Values, a Auth) *http.Request {
	f := url.Values{}
	for k, v := range form {
		f[k] = append([]string(nil), v...)
	}
	r := httptest.NewRequest("POST", "https://as.example"+path, nil)
	a.apply(r, f)
	r.Body = newBody(f.Encode())
	r.ContentLength = int64(len(f.Encode()))
	r.Header.Set("Content-Type", "application/x-www-form-urlencoded")
	return r
}

// ErrName extracts the RFC error name ("" for nil, "go-error" for non-RFC errors).
func ErrName(err error) string {
	if err == nil {
		return ""
	}
	var e *fosite.RFC6749Error
	if errors.As(err, &e) {
		return e.ErrorField
	}
	return "go-error"
}

func ErrDetail(err error) string {
	if err == nil {
		return ""
	}
	var e *fosite.RFC6749Error
	if errors.As(err, &e) {
		return e.ErrorField + ": " + e.HintField + " | " + e.DebugField
	}
	return err.Error()
}

// Out is what an endpoint wrote.
type Out struct {
	Status  int
	Header  http.Header
	Body    string
	JSON    map[string]interface{}
	Err     error  // error returned by the New*Request/New*Response call (nil on success)
	ErrName string // RFC name of Err
	Crashed bool   // an injected crash interrupted the request
	Op      int
	Intro   fosite.IntrospectionResponder // introspection endpoint only
}

func (o *Out) S(key string) string {
	if o.JSON == nil {
		return ""
	}
	if s, ok := o.JSON[key].(string); ok {
		return s
	}
	return ""
}

func (o *Out) Num(key string) (float64, bool) {
	if o.JSON == nil {
		return 0, false
	}
	f, ok := o.JSON[key].(float64)
	return f, ok
}

// RespTap, if set, sees every HTTP response the drivers produce (status, headers, body). Sequential monitors only.
var RespTap func(status int, header http.Header, body string)

func finish(rec *httptest.ResponseRecorder, o *Out) {
	if RespTap != nil {
		RespTap(rec.Code, rec.Header(), rec.Body.String())
	}
	o.Status = rec.Code
	o.Header = rec.Header()
	o.Body = rec.Body.String()
	var m map[string]interface{}
	if json.Unmarshal(rec.Body.Bytes(), &m) == nil {
		o.JSON = m
	}
}

func (w *World) ctx() (context.Context, int) {
	op := w.NextOp()
	ctx, cancel := context.WithCancel(context.WithValue(context.Background(), OpKey, op))
	w.opMu.Lock()
	w.cancels[op] = cancel
	delete(w.cancels, op-64) // requests are short: forget old cancel functions
	w.opMu.Unlock()
	return ctx, op
}

// CancelOp ends the request context of operation op (the caller hung up / its deadline passed) while the request is being processed.
func (w *World) CancelOp(op int) {
	w.opMu.Lock()
	cancel := w.cancels[op]
	w.opMu.Unlock()
	if cancel != nil {
		cancel()
	}
}

func recoverCrash(o *Out, w *World) {
	if r := recover(); r != nil {
		if _, ok := r.(Crash); ok {
			o.Crashed = true
			w.Store.AbortOpenTx()
			return
		}
		panic(r)
	}
}

// ---- token endpoint -----------------------------------------------------------

// ErrAbandoned marks a token request the harness gave up between NewAccessRequest and NewAccessResponse.
var ErrAbandoned = errors.New("request abandoned by the integrator between the two phases of the token endpoint")

// TokenMut lets a caller touch the access request between NewAccessRequest and NewAccessResponse (e.g. grant scopes).
type TokenMut func(ar fosite.AccessRequester)

func (w *World) Token(form url.Values, a Auth, mut ...TokenMut) (out *Out) {
	ctx, op := w.ctx()
	out = &Out{Op: op}
	defer recoverCrash(out, w)
	r := postReq("/oauth2/token", form, a)
	rec := httptest.NewRecorder()
	sess := w.Session("")
	ar, err := w.P.NewAccessRequest(ctx, r, sess)
	if err != nil {
		out.Err, out.ErrName = err, ErrName(err)
		w.P.WriteAccessError(ctx, rec, ar, err)
		finish(rec, out)
		return
	}
	// Grant what the client-level flows request (client_credentials, password, jwt-bearer):
	// those handlers validated the requested scopes against the registration already.
	gt := form.Get("grant_type")
	if gt == "client_credentials" || gt == "password" || gt == "urn:ietf:params:oauth:grant-type:jwt-bearer" {
		for _, s := range ar.GetRequestedScopes() {
			ar.GrantScope(s)
		}
		for _, s := range ar.GetRequestedAudience() {
			ar.GrantAudience(s)
		}
	}
	for _, m := range mut {
		m(ar)
	}
	if w.Abandon != nil && w.Abandon(ar) {
		// the integrator gives the request up between the two phases (its own policy check failed): nothing is written
		out.Err, out.ErrName = ErrAbandoned, "abandoned"
		return
	}
	resp, err := w.P.NewAccessResponse(ctx, ar)
	if err != nil {
		out.Err, out.ErrName = err, ErrName(err)
		w.P.WriteAccessError(ctx, rec, ar, err)
		finish(rec, out)
		return
	}
	w.P.WriteAccessResponse(ctx, rec, ar, resp)
	finish(rec, out)
	return
}

// ---- authorization endpoint -----------------------------------------------------

type Consent struct {
	Deny         bool
	Subject      string
	EmptySubject bool     // really use an empty subject (Subject "" otherwise means the default user)
	Scopes       []string // nil => grant everything requested
	NoAud        bool     // do not grant requested audience
	SessMut      func(*Sess)
	ReqMut       func(fosite.AuthorizeRequester)
	DenyErr      error
}

// AuthzOut is the parsed result of the authorization endpoint.
type AuthzOut struct {
	Out
	Kind     string     // "redirect" | "form_post" | "json" | "other"
	Location string     // raw Location header
	Target   *url.URL   // parsed Location
	Query    url.Values // parameters found in the query of the redirect
	Fragment url.Values // parameters found in the fragment
	Form     url.Values // hidden inputs of a form_post page
	Action   string     // form action
	HTML     *html.Node
	Inputs   int
	Params   url.Values // the response parameters wherever they were delivered
	Req      fosite.AuthorizeRequester
}

func (w *World) Authorize(q url.Values, c Consent) *AuthzOut {
	return w.AuthorizeRaw(q.Encode(), c)
}

func (w *World) AuthorizeRaw(rawQuery string, c Consent) (out *AuthzOut) {
	ctx, op := w.ctx()
	out = &AuthzOut{}
	out.Op = op
	defer func() {
		if r := recover(); r != nil {
			if _, ok := r.(Crash); ok {
				out.Crashed = true
				w.Store.AbortOpenTx()
				return
			}
			panic(r)
		}
	}()
	r := httptest.NewRequest("GET", "https://as.example/oauth2/auth", nil)
	r.URL.RawQuery = rawQuery
	rec := httptest.NewRecorder()
	ar, err := w.P.NewAuthorizeRequest(ctx, r)
	out.Req = ar
	if err != nil {
		out.Err, out.ErrName = err, ErrName(err)
		w.P.WriteAuthorizeError(ctx, rec, ar, err)
		ParseAuthz(rec, out)
		return
	}
	if c.Deny {
		e := c.DenyErr
		if e == nil {
			e = fosite.ErrAccessDenied.WithHint("The resource owner denied the request.")
		}
		out.Err, out.ErrName = e, ErrName(e)
		w.P.WriteAuthorizeError(ctx, rec, ar, e)
		ParseAuthz(rec, out)
		return
	}
	if c.Scopes == nil {
		for _, s := range ar.GetRequestedScopes() {
			ar.GrantScope(s)
		}
	} else {
		for _, s := range c.Scopes {
			ar.GrantScope(s)
		}
	}
	if !c.NoAud {
		for _, a := range ar.GetRequestedAudience() {
			ar.GrantAudience(a)
		}
	}
	if c.ReqMut != nil {
		c.ReqMut(ar)
	}
	sub := c.Subject
	if sub == "" && !c.EmptySubject {
		sub = "user-1"
	}
	var sess fosite.Session
	if w.Opts.SessFactory != nil {
		sess = w.Opts.SessFactory(sub)
	} else {
		hs := w.NewSess(sub)
		if c.SessMut != nil {
			c.SessMut(hs)
		}
		sess = hs
	}
	resp, err := w.P.NewAuthorizeResponse(ctx, ar, sess)
	if err != nil {
		out.Err, out.ErrName = err, ErrName(err)
		w.P.WriteAuthorizeError(ctx, rec, ar, err)
		ParseAuthz(rec, out)
		return
	}
	w.P.WriteAuthorizeResponse(ctx, rec, ar, resp)
	ParseAuthz(rec, out)
	return
}

// ParseAuthz parses what an authorization-endpoint writer wrote.
func ParseAuthz(rec *httptest.ResponseRecorder, out *AuthzOut) {
	finish(rec, &out.Out)
	out.Params = url.Values{}
	loc := rec.Header().Get("Location")
	ct := rec.Header().Get("Content-Type")
	switch {
	case loc != "":
		out.Kind = "redirect"
		out.Location = loc
		u, err := url.Parse(loc)
		if err == nil {
			out.Target = u
			out.Query = u.Query()
			// the fragment is application/x-www-form-urlencoded
			frag := u.EscapedFragment()
			if i := strings.Index(loc, "#"); i >= 0 {
				frag = loc[i+1:]
			}
			out.Fragment, _ = url.ParseQuery(frag)
			for k, v := range out.Query {
				out.Params[k] = v
			}
			for k, v := range out.Fragment {
				out.Params[k] = append(out.Params[k], v...)
			}
		}
	case strings.HasPrefix(ct, "text/html"):
		out.Kind = "form_post"
		out.Form = url.Values{}
		doc, err := html.Parse(strings.NewReader(out.Body))
		if err == nil {
			out.HTML = doc
			var walk func(n *html.Node)
			walk = func(n *html.Node) {
				if n.Type == html.ElementNode && n.Data == "form" {
					for _, a := range n.Attr {
						if a.Key == "action" {
							out.Action = a.Val
						}
					}
				}
				if n.Type == html.ElementNode && n.Data == "input" {
					out.Inputs++
					var name, val string
					for _, a := range n.Attr {
						if a.Key == "name" {
							name = a.Val
						}
						if a.Key == "value" {
							val = a.Val
						}
					}
					out.Form.Add(name, val)
				}
				for c := n.FirstChild; c != nil; c = c.NextSibling {
					walk(c)
				}
			}
			walk(doc)
		}
		for k, v := range out.Form {
			out.Params[k] = v
		}
	case out.JSON != nil:
		out.Kind = "json"
	default:
		out.Kind = "other"
	}
}

// ---- introspection ----------------------------------------------------------

type Intro struct {
	Active bool
	Use    fosite.TokenUse
	AR     fosite.AccessRequester
	Err    error
}

// IntrospectAPI calls the provider's IntrospectToken directly.
func (w *World) IntrospectAPI(token string, hint fosite.TokenUse, scopes ...string) Intro {
	ctx, _ := w.ctx()
	use, ar, err := w.P.IntrospectToken(ctx, token, hint, w.Session(""), scopes...)
	return Intro{Active: err == nil, Use: use, AR: ar, Err: err}
}

// IntrospectHTTP goes through NewIntrospectionRequest and the writers. bearer, if set, is used instead of a.
func (w *World) IntrospectHTTP(form url.Values, a Auth, bearer string) (out *Out) {
	ctx, op := w.ctx()
	out = &Out{Op: op}
	defer recoverCrash(out, w)
	r := postReq("/oauth2/introspect", form, a)
	if bearer != "" {
		r.Header.Set("Authorization", "Bearer "+bearer)
	}
	rec := httptest.NewRecorder()
	ir, err := w.P.NewIntrospectionRequest(ctx, r, w.Session(""))
	if err != nil {
		out.Err, out.ErrName = err, ErrName(err)
		w.P.WriteIntrospectionError(ctx, rec, err)
		finish(rec, out)
		return
	}
	out.Intro = ir
	w.P.WriteIntrospectionResponse(ctx, rec, ir)
	finish(rec, out)
	return
}

// ---- revocation -------------------------------------------------------------

func (w *World) Revoke(form url.Values, a Auth) (out *Out) {
	ctx, op := w.ctx()
	out = &Out{Op: op}
	defer recoverCrash(out, w)
	r := postReq("/oauth2/revoke", form, a)
	rec := httptest.NewRecorder()
	err := w.P.NewRevocationRequest(ctx, r)
	out.Err, out.ErrName = err, ErrName(err)
	w.P.WriteRevocationResponse(ctx, rec, err)
	finish(rec, out)
	return
}

// ---- PAR ----------------------------------------------------------------------

func (w *World) PAR(form url.Values, a Auth) (out *Out) {
	ctx, op := w.ctx()
	out = &Out{Op: op}
	defer recoverCrash(out, w)
	r := postReq("/oauth2/par", form, a)
	rec := httptest.NewRecorder()
	ar, err := w.P.NewPushedAuthorizeRequest(ctx, r)
	if err != nil {
		out.Err, out.ErrName = err, ErrName(err)
		w.P.WritePushedAuthorizeError(ctx, rec, ar, err)
		finish(rec, out)
		return
	}
	resp, err := w.P.NewPushedAuthorizeResponse(ctx, ar, w.Session(""))
	if err != nil {
		out.Err, out.ErrName = err, ErrName(err)
		w.P.WritePushedAuthorizeError(ctx, rec, ar, err)
		finish(rec, out)
		return
	}
	w.P.WritePushedAuthorizeResponse(ctx, rec, ar, resp)
	finish(rec, out)
	return
}

// ---- device -------------------------------------------------------------------

func (w *World) Device(form url.Values, a Auth) (out *Out) {
	ctx, op := w.ctx()
	out = &Out{Op: op}
	defer recoverCrash(out, w)
	r := postReq("/oauth2/device/auth", form, a)
	rec := httptest.NewRecorder()
	dr, err := w.P.NewDeviceRequest(ctx, r)
	if err != nil {
		out.Err, out.ErrName = err, ErrName(err)
		w.P.WriteAccessError(ctx, rec, dr, err)
		finish(rec, out)
		return
	}
	resp, err := w.P.NewDeviceResponse(ctx, dr, w.Session(""))
	if err != nil {
		out.Err, out.ErrName = err, ErrName(err)
		w.P.WriteAccessError(ctx, rec, dr, err)
		finish(rec, out)
		return
	}
	w.P.WriteDeviceResponse(ctx, rec, dr, resp)
	finish(rec, out)
	return
}

// DeviceDecide plays the consent application: it finds the pending device
// request by the user code, validates the user code through the strategy (as
// a consent app does) and records the user's decision, the granted scopes and
// the user's session on the stored request.
func (w *World) DeviceDecide(userCode string, accept bool, subject string, scopes []string, openidSession bool, sessMut ...func(*Sess)) error {
	ctx := context.Background()
	strat := w.DeviceStrategy()
	sig, err := strat.UserCodeSignature(ctx, userCode)
	if err != nil {
		return err
	}
	req, ok := w.Mem.DeviceAuths[sig]
	if !ok {
		return fosite.ErrNotFound
	}
	if err := strat.ValidateUserCode(ctx, req, userCode); err != nil {
		return err
	}
	target := req
	if w.Store.Mode.DB {
		target = CloneRequester(req).(fosite.DeviceRequester)
	}
	if accept {
		target.SetUserCodeState(fosite.UserCodeAccepted)
		if scopes == nil {
			scopes = target.GetRequestedScopes()
		}
		for _, s := range scopes {
			target.GrantScope(s)
		}
		for _, a := range target.GetRequestedAudience() {
			target.GrantAudience(a)
		}
		old := target.GetSession()
		var ns fosite.Session
		if w.Opts.SessFactory != nil {
			ns = w.Opts.SessFactory(subject)
		} else {
			hs := w.NewSess(subject)
			for _, m := range sessMut {
				m(hs)
			}
			ns = hs
		}
		if old != nil && !w.DeviceFreshSession {
			for _, tt := range []fosite.TokenType{fosite.UserCode, fosite.DeviceCode} {
				if e := old.GetExpiresAt(tt); !e.IsZero() {
					ns.SetExpiresAt(tt, e)
				}
			}
		}
		target.SetSession(ns)
	} else {
		target.SetUserCodeState(fosite.UserCodeRejected)
	}
	if w.Store.Mode.DB {
		for k, v := range w.Mem.DeviceAuths {
			if v == req {
				w.Mem.DeviceAuths[k] = target
			}
		}
	}
	if accept && openidSession && target.GetGrantedScopes().Has("openid") {
		// the consent app stores the OpenID Connect session under the device code signature
		for k, v := range w.Mem.DeviceAuths {
			if v == target && k != sig {
				_ = w.Mem.CreateOpenIDConnectSession(ctx, k, CloneRequester(target))
			}
		}
	}
	return nil
}

func (w *World) String() string {
	return fmt.Sprintf("world(jwt=%v db=%v)", w.Opts.JWTAccess, w.Opts.Mode.DB)
}
