//go:build !faketime

package world

import "time"

// Sleep really sleeps in builds with the real clock (race-detector build).
func Sleep(d time.Duration) { time.Sleep(d) }

const VirtualClock = false

// ResetClock is a no-op with the real clock.
func ResetClock() {}
