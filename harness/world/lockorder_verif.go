//go:build verif

package world

import (
	"fmt"
	"runtime"
	"sort"
	"strconv"
	"strings"
	"sync"
	"sync/atomic"
	"time"

	"github.com/ory/fosite/storage"
)

// Lock-order monitor over the MemoryStore's table locks (hook: storage.SetLockObserver, verif builds only).
// For every goroutine it keeps the list of store locks currently held; when a goroutine asks for lock B while holding
// lock A of the same store, the edge A -> B is recorded (by lock NAME, so that the orders learned on every store
// instance of the process accumulate in one graph). A cycle in that graph is a potential deadlock: two goroutines
// taking the locks along the cycle from different starting points block each other for ever, whether or not the
// executions observed happened to interleave that way.

type heldLock struct {
	addr  uintptr
	write bool
}

type lockOrderState struct {
	mu     sync.Mutex
	on     bool
	names  map[uintptr]string // lock address -> "name"
	store  map[uintptr]int    // lock address -> store number
	nstore int
	held   map[int64][]heldLock
	edges  map[string]int64  // "A -> B" -> count
	wit    map[string]string // "A -> B" -> first stack
	events int64
}

var lockOrder = &lockOrderState{names: map[uintptr]string{}, store: map[uintptr]int{}, held: map[int64][]heldLock{}, edges: map[string]int64{}, wit: map[string]string{}}

func goid() int64 {
	var b [40]byte
	n := runtime.Stack(b[:], false)
	// "goroutine 123 ["
	f := strings.Fields(string(b[:n]))
	if len(f) < 2 {
		return -1
	}
	id, _ := strconv.ParseInt(f[1], 10, 64)
	return id
}

// LockOrderStart switches the monitor on for this process.
func LockOrderStart() bool {
	lo := lockOrder
	lo.mu.Lock()
	lo.on = true
	lo.mu.Unlock()
	storage.SetLockObserver(lo.observe)
	return true
}

// LockOrderRegister makes the locks of a store known by name.
func LockOrderRegister(m *storage.MemoryStore) {
	lo := lockOrder
	lo.mu.Lock()
	defer lo.mu.Unlock()
	if !lo.on {
		return
	}
	lo.nstore++
	for a, n := range m.LockNames() {
		lo.names[a] = n
		lo.store[a] = lo.nstore
	}
}

// lockDelay, if set, is slept just before a goroutine starts waiting for a store lock: it widens the gap between two critical
// sections of one store operation (where another goroutine can observe an intermediate state), never a critical section itself.
var lockDelay atomic.Int64

// LockDelay makes every acquisition of a MemoryStore table lock start with a pause of d (0 switches it off).
func LockDelay(d time.Duration) { lockDelay.Store(int64(d)) }

func (lo *lockOrderState) observe(lock uintptr, write bool, event int) {
	if event == storage.LockWanted {
		if d := lockDelay.Load(); d > 0 {
			time.Sleep(time.Duration(d))
		}
	}
	g := goid()
	lo.mu.Lock()
	defer lo.mu.Unlock()
	lo.events++
	name, known := lo.names[lock]
	if !known {
		return
	}
	mode := func(w bool) string {
		if w {
			return "W"
		}
		return "R"
	}
	switch event {
	case storage.LockWanted:
		for _, h := range lo.held[g] {
			if lo.store[h.addr] != lo.store[lock] {
				continue
			}
			e := lo.names[h.addr] + " -> " + name
			if h.addr == lock {
				e = name + " -> " + name + " (re-entered " + mode(h.write) + " then " + mode(write) + ")"
			}
			lo.edges[e]++
			if _, ok := lo.wit[e]; !ok {
				buf := make([]byte, 6000)
				buf = buf[:runtime.Stack(buf, false)]
				lo.wit[e] = string(buf)
			}
		}
	case storage.LockAcquired:
		lo.held[g] = append(lo.held[g], heldLock{lock, write})
	case storage.LockReleased:
		hs := lo.held[g]
		for i := len(hs) - 1; i >= 0; i-- {
			if hs[i].addr == lock && hs[i].write == write {
				hs = append(hs[:i], hs[i+1:]...)
				break
			}
		}
		if len(hs) == 0 {
			delete(lo.held, g)
		} else {
			lo.held[g] = hs
		}
	}
}

// LockOrderReport returns the observed order edges with their counts, the cycles found among them (each as a readable
// string, re-entrance of one lock included) and, per edge, the stack of its first observation.
func LockOrderReport() (events int64, edges map[string]int64, cycles []string, witness map[string]string) {
	lo := lockOrder
	lo.mu.Lock()
	defer lo.mu.Unlock()
	edges = map[string]int64{}
	witness = map[string]string{}
	adj := map[string][]string{}
	for e, n := range lo.edges {
		edges[e] = n
		witness[e] = lo.wit[e]
		p := strings.SplitN(e, " -> ", 2)
		to := strings.Fields(p[1])[0]
		if p[0] == to {
			cycles = append(cycles, e)
			continue
		}
		adj[p[0]] = append(adj[p[0]], to)
	}
	// cycles among distinct locks: depth-first search, each cycle reported once from its smallest node
	var nodes []string
	for n := range adj {
		nodes = append(nodes, n)
	}
	sort.Strings(nodes)
	seen := map[string]bool{}
	var path []string
	var dfs func(start, cur string)
	dfs = func(start, cur string) {
		for _, nx := range adj[cur] {
			if nx == start {
				cyc := append(append([]string(nil), path...), start)
				k := strings.Join(cyc, " -> ")
				if !seen[k] {
					seen[k] = true
					cycles = append(cycles, k)
				}
				continue
			}
			if nx < start {
				continue // that cycle is reported from its smallest node
			}
			dup := false
			for _, p := range path {
				if p == nx {
					dup = true
				}
			}
			if dup {
				continue
			}
			path = append(path, nx)
			dfs(start, nx)
			path = path[:len(path)-1]
		}
	}
	for _, n := range nodes {
		path = []string{n}
		dfs(n, n)
	}
	sort.Strings(cycles)
	return lo.events, edges, cycles, witness
}

var _ = fmt.Sprint
