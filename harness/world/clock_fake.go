//go:build faketime

package world

import (
	"time"
	_ "unsafe" // go:linkname
)

// In the Go runtime's faketime mode the clock is the runtime variable
// `faketime` (nanoseconds). Advancing it through time.Sleep depends on the
// scheduler noticing that every thread is idle, which it occasionally fails to
// do (a shard then hangs in time.Sleep for ever). The harness therefore moves
// the variable directly. Only the single monitor goroutine touches it, between
// library calls.
//
//go:linkname runtimeFaketime runtime.faketime
var runtimeFaketime int64

// Sleep advances the virtual clock by d without blocking.
func Sleep(d time.Duration) {
	if d > 0 {
		runtimeFaketime += int64(d)
	}
}

const VirtualClock = true

var clockBase int64

// ResetClock puts the virtual clock back to where the process started. Every world is self-contained, so a new
// world may start at the base instant again; without this a shard that runs hundreds of cases with +10-year advances
// walks past the year 2157/2262 limits of time.Time and of int64 nanoseconds ("timer when must be positive").
func ResetClock() {
	if clockBase == 0 {
		clockBase = runtimeFaketime
		return
	}
	if runtimeFaketime-clockBase > int64(24*time.Hour) {
		runtimeFaketime = clockBase
	}
}
