package world

import (
	"context"
	"crypto/ecdsa"
	"crypto/elliptic"
	"crypto/rand"
	"crypto/rsa"
	"net/http"
	"sync"
	"time"

	"github.com/go-jose/go-jose/v3"
	"github.com/hashicorp/go-retryablehttp"
	"github.com/mohae/deepcopy"
	"golang.org/x/crypto/bcrypt"

	"github.com/ory/fosite"
	"github.com/ory/fosite/compose"
	"github.com/ory/fosite/handler/oauth2"
	"github.com/ory/fosite/handler/openid"
	"github.com/ory/fosite/handler/rfc8628"
	"github.com/ory/fosite/storage"
	"github.com/ory/fosite/token/jwt"
)

const (
	TokenURL  = "https://as.example/oauth2/token"
	Issuer    = "https://as.example"
	VerifyURL = "https://as.example/device"
	UserName  = "peter"
	UserPass  = "correct-horse-battery-pw"
)

var GlobalSecret = []byte("verif-global-secret-0123456789abcdefghij")

// ---- process-wide keys (generated once) -------------------------------------

type Keys struct {
	ServerRSA *rsa.PrivateKey
	ServerEC  map[string]*ecdsa.PrivateKey // P-256, P-384, P-521
	ClientRSA [3]*rsa.PrivateKey
	ClientEC  [2]*ecdsa.PrivateKey
}

var (
	keysOnce sync.Once
	keys     *Keys
)

func GetKeys() *Keys {
	keysOnce.Do(func() {
		k := &Keys{ServerEC: map[string]*ecdsa.PrivateKey{}}
		var err error
		if k.ServerRSA, err = rsa.GenerateKey(rand.Reader, 2048); err != nil {
			panic(err)
		}
		for i := range k.ClientRSA {
			if k.ClientRSA[i], err = rsa.GenerateKey(rand.Reader, 2048); err != nil {
				panic(err)
			}
		}
		for i := range k.ClientEC {
			if k.ClientEC[i], err = ecdsa.GenerateKey(elliptic.P256(), rand.Reader); err != nil {
				panic(err)
			}
		}
		for n, c := range map[string]elliptic.Curve{"P-256": elliptic.P256(), "P-384": elliptic.P384(), "P-521": elliptic.P521()} {
			if k.ServerEC[n], err = ecdsa.GenerateKey(c, rand.Reader); err != nil {
				panic(err)
			}
		}
		keys = k
	})
	return keys
}

var (
	hashMu    sync.Mutex
	hashCache = map[string][]byte{}
)

// HashSecret returns a cost-4 bcrypt hash (cached per process).
func HashSecret(s string) []byte {
	hashMu.Lock()
	defer hashMu.Unlock()
	if h, ok := hashCache[s]; ok {
		return h
	}
	h, err := bcrypt.GenerateFromPassword([]byte(s), bcrypt.MinCost)
	if err != nil {
		panic(err)
	}
	hashCache[s] = h
	return h
}

// ---- session ----------------------------------------------------------------

// Sess is the session type used for every request: an OpenID Connect session
// that can also carry JWT access-token claims.
type Sess struct {
	*openid.DefaultSession
	JWTClaims *jwt.JWTClaims
	JWTHeader *jwt.Headers
}

func (s *Sess) GetJWTClaims() jwt.JWTClaimsContainer {
	if s.JWTClaims == nil {
		s.JWTClaims = &jwt.JWTClaims{}
	}
	return s.JWTClaims
}

func (s *Sess) GetJWTHeader() *jwt.Headers {
	if s.JWTHeader == nil {
		s.JWTHeader = &jwt.Headers{}
	}
	return s.JWTHeader
}

// Clone goes through the shipped openid.DefaultSession.Clone for the embedded session (that is the code
// integrators run) and deep-copies the JWT parts.
func (s *Sess) Clone() fosite.Session {
	if s == nil {
		return nil
	}
	c := &Sess{}
	if s.DefaultSession != nil {
		c.DefaultSession = s.DefaultSession.Clone().(*openid.DefaultSession)
	}
	if s.JWTClaims != nil {
		c.JWTClaims = deepcopy.Copy(s.JWTClaims).(*jwt.JWTClaims)
	}
	if s.JWTHeader != nil {
		c.JWTHeader = deepcopy.Copy(s.JWTHeader).(*jwt.Headers)
	}
	return c
}

// NewSess builds a session for subject sub.
func NewSess(sub string) *Sess {
	return &Sess{
		DefaultSession: &openid.DefaultSession{
			Claims:  &jwt.IDTokenClaims{Subject: sub, RequestedAt: time.Now().UTC(), AuthTime: time.Now().UTC()},
			Headers: &jwt.Headers{},
			Subject: sub,
		},
		JWTClaims: &jwt.JWTClaims{Subject: sub, Extra: map[string]interface{}{}},
		JWTHeader: &jwt.Headers{Extra: map[string]interface{}{}},
	}
}

// ---- clients ------------------------------------------------------------------

// RichClient implements every optional client interface.
type RichClient struct {
	*fosite.DefaultOpenIDConnectClient
	ResponseModes []fosite.ResponseModeType
	Lifespans     *fosite.ClientLifespanConfig
}

func (c *RichClient) GetResponseModes() []fosite.ResponseModeType { return c.ResponseModes }
func (c *RichClient) GetEffectiveLifespan(gt fosite.GrantType, tt fosite.TokenType, fallback time.Duration) time.Duration {
	return (&fosite.DefaultClientWithCustomTokenLifespans{DefaultClient: c.DefaultClient, TokenLifespans: c.Lifespans}).GetEffectiveLifespan(gt, tt, fallback)
}

// ClientSpec describes a registration; Kind selects the Go type handed to fosite.
type ClientSpec struct {
	ID            string
	Secret        string
	Rotated       []string
	Public        bool
	Kind          string // "plain" (default) | "oidc" | "rm" | "lifespan" | "rich"
	RedirectURIs  []string
	GrantTypes    []string
	ResponseTypes []string
	Scopes        []string
	Audience      []string
	AuthMethod    string
	AuthSigAlg    string
	JWKS          *jose.JSONWebKeySet
	JWKSURI       string
	ReqObjAlg     string
	RequestURIs   []string
	ResponseModes []fosite.ResponseModeType
	Lifespans     *fosite.ClientLifespanConfig
}

var AllGrants = []string{"authorization_code", "implicit", "refresh_token", "password", "client_credentials",
	"urn:ietf:params:oauth:grant-type:device_code", "urn:ietf:params:oauth:grant-type:jwt-bearer"}
var AllResponseTypes = []string{"code", "token", "id_token", "id_token token", "code id_token", "code token", "code id_token token"}

func (sp ClientSpec) Build() fosite.Client {
	dc := &fosite.DefaultClient{
		ID: sp.ID, Public: sp.Public,
		RedirectURIs:  append([]string(nil), sp.RedirectURIs...),
		GrantTypes:    append([]string(nil), sp.GrantTypes...),
		ResponseTypes: append([]string(nil), sp.ResponseTypes...),
		Scopes:        append([]string(nil), sp.Scopes...),
		Audience:      append([]string(nil), sp.Audience...),
	}
	if sp.Secret != "" {
		dc.Secret = HashSecret(sp.Secret)
	}
	for _, r := range sp.Rotated {
		dc.RotatedSecrets = append(dc.RotatedSecrets, HashSecret(r))
	}
	oidc := &fosite.DefaultOpenIDConnectClient{DefaultClient: dc, JSONWebKeys: sp.JWKS, JSONWebKeysURI: sp.JWKSURI,
		TokenEndpointAuthMethod: sp.AuthMethod, TokenEndpointAuthSigningAlgorithm: sp.AuthSigAlg,
		RequestObjectSigningAlgorithm: sp.ReqObjAlg, RequestURIs: sp.RequestURIs}
	switch sp.Kind {
	case "", "plain":
		return dc
	case "oidc":
		return oidc
	case "rm":
		return &fosite.DefaultResponseModeClient{DefaultClient: dc, ResponseModes: sp.ResponseModes}
	case "lifespan":
		return &fosite.DefaultClientWithCustomTokenLifespans{DefaultClient: dc, TokenLifespans: sp.Lifespans}
	case "rich":
		return &RichClient{DefaultOpenIDConnectClient: oidc, ResponseModes: sp.ResponseModes, Lifespans: sp.Lifespans}
	}
	panic("unknown client kind " + sp.Kind)
}

// DC returns the embedded *fosite.DefaultClient of a registered client (for edits).
func DC(c fosite.Client) *fosite.DefaultClient {
	switch t := c.(type) {
	case *fosite.DefaultClient:
		return t
	case *fosite.DefaultOpenIDConnectClient:
		return t.DefaultClient
	case *fosite.DefaultResponseModeClient:
		return t.DefaultClient
	case *fosite.DefaultClientWithCustomTokenLifespans:
		return t.DefaultClient
	case *RichClient:
		return t.DefaultClient
	}
	return nil
}

var AllModes = []fosite.ResponseModeType{fosite.ResponseModeQuery, fosite.ResponseModeFragment, fosite.ResponseModeFormPost}

// DefaultClients is the standard cast used by the history monitors.
func DefaultClients() []ClientSpec {
	sc := []string{"openid", "offline", "offline_access", "fosite", "photos", "profile"}
	return []ClientSpec{
		{ID: "conf-a", Secret: "secret-of-a", Rotated: []string{"old-secret-of-a"}, RedirectURIs: []string{"https://app-a.example/cb"},
			GrantTypes: AllGrants, ResponseTypes: AllResponseTypes, Scopes: sc, Audience: []string{"https://api.example/a", "https://api.example/shared"}},
		{ID: "conf-b", Secret: "secret-of-b", RedirectURIs: []string{"https://app-b.example/cb", "https://app-b.example/cb2"},
			GrantTypes: AllGrants, ResponseTypes: AllResponseTypes, Scopes: sc, Audience: []string{"https://api.example/b", "https://api.example/shared"}},
		{ID: "pub-c", Public: true, RedirectURIs: []string{"https://app-c.example/cb"},
			GrantTypes:    []string{"authorization_code", "implicit", "refresh_token", "urn:ietf:params:oauth:grant-type:device_code"},
			ResponseTypes: AllResponseTypes, Scopes: sc, Audience: []string{"https://api.example/c"}},
		{ID: "rich-d", Kind: "rich", Secret: "secret-of-d", AuthMethod: "client_secret_basic", RedirectURIs: []string{"https://app-d.example/cb"},
			GrantTypes: AllGrants, ResponseTypes: AllResponseTypes, Scopes: sc, Audience: []string{"https://api.example/d", "https://api.example/shared"},
			ResponseModes: AllModes},
	}
}

// ---- world --------------------------------------------------------------------

type Opts struct {
	JWTAccess bool
	Mode      Mode
	Clients   []ClientSpec // nil => DefaultClients()
	Cfg       func(*fosite.Config)
	IDKey     interface{} // signing key for ID tokens / JWT access tokens; nil => server RSA key
	// LazyConfig leaves the lazily-defaulting Config fields unset (C19).
	LazyConfig bool
	// SessFactory, if set, supplies the session objects instead of the harness's own type (used to exercise the
	// session types fosite ships: fosite.DefaultSession, oauth2.JWTSession). Such worlds cannot run OpenID Connect flows.
	SessFactory func(subject string) fosite.Session
	// RealJWKS uses fosite's shipped DefaultJWKSFetcherStrategy (with its cache) over the stub HTTP transport instead of the
	// cache-less stub strategy.
	RealJWKS bool
	// StatelessIntrospectionFirst (with JWTAccess) registers fosite's shipped stateless JWT validator
	// (compose.OAuth2StatelessJWTIntrospectionFactory) IN FRONT of the storage-backed introspection handler, as a deployment
	// does that wants signature-only validation for foreign resource servers and still composes the core validator.
	StatelessIntrospectionFirst bool
	// RetiredRevoker registers, in front of the provider's own revocation handler, a second shipped TokenRevocationHandler that
	// serves a retired token family kept in a separate (empty) store: it knows none of the tokens of this world.
	RetiredRevoker bool
	// CoreStrategy, if set, supplies the token strategy (an integrator-written oauth2.CoreStrategy) instead of the shipped
	// HMAC / JWT strategies.
	CoreStrategy func(cfg *fosite.Config) oauth2.CoreStrategy
}

type World struct {
	Opts  Opts
	Cfg   *fosite.Config
	Mem   *storage.MemoryStore
	Store *IStore
	P     fosite.OAuth2Provider
	Specs map[string]*ClientSpec
	Key   interface{}

	HMAC    *oauth2.HMACSHAStrategy
	Dev     *rfc8628.DefaultDeviceStrategy
	Core    oauth2.CoreStrategy
	opMu    sync.Mutex
	opNext  int
	cancels map[int]context.CancelFunc
	// HTTPDoer answers request_uri / jwks_uri fetches (no network).
	Fetch func(url string) (int, string)
	// FetchErr, if set and returning an error, makes the outgoing fetch fail at the transport (no HTTP response at all).
	FetchErr func(url string) error
	// DeviceFreshSession: the consent step attaches a freshly built user session to the approved device request and does NOT
	// carry the device / user code expiries over from the anonymous session the codes were issued with (legal: the strategy
	// then falls back to the request time plus the configured lifespan).
	DeviceFreshSession bool
	// Abandon, if set, is asked after NewAccessRequest (and the TokenMuts) whether the request is given up before NewAccessResponse.
	Abandon func(fosite.AccessRequester) bool
	// JWKSSettle waits until the shipped JWKS fetcher's cache has absorbed pending writes (RealJWKS worlds only).
	JWKSSettle func()
	// IDAlg, if set, is written into the ID-token header of every session the harness creates
	// (the integrator's duty when the signing key is not RS256).
	IDAlg string
}

// NewSess builds a session like the package function and applies the world's ID-token header algorithm.
func (w *World) NewSess(sub string) *Sess {
	s := NewSess(sub)
	if w.IDAlg != "" {
		s.Headers.Extra = map[string]interface{}{"alg": w.IDAlg}
	}
	return s
}

type stubRT struct{ w *World }

func (s stubRT) RoundTrip(r *http.Request) (*http.Response, error) {
	if s.w.FetchErr != nil {
		if err := s.w.FetchErr(r.URL.String()); err != nil {
			return nil, err
		}
	}
	code, body := 404, "not found"
	if s.w.Fetch != nil {
		code, body = s.w.Fetch(r.URL.String())
	}
	return &http.Response{StatusCode: code, Status: http.StatusText(code), Body: newBody(body), Header: http.Header{}, Request: r, Proto: "HTTP/1.1", ProtoMajor: 1, ProtoMinor: 1}, nil
}

func New(o Opts) *World {
	ResetClock()
	k := GetKeys()
	w := &World{Opts: o, Specs: map[string]*ClientSpec{}, cancels: map[int]context.CancelFunc{}}
	cfg := &fosite.Config{
		GlobalSecret:          append([]byte(nil), GlobalSecret...),
		TokenURL:              TokenURL,
		IDTokenIssuer:         Issuer,
		AccessTokenIssuer:     Issuer,
		DeviceVerificationURL: VerifyURL,
	}
	if !o.LazyConfig {
		cfg.ScopeStrategy = fosite.WildcardScopeStrategy
		cfg.AudienceMatchingStrategy = fosite.DefaultAudienceMatchingStrategy
		cfg.ClientSecretsHasher = &fosite.BCrypt{Config: cfg}
		cfg.JWKSFetcherStrategy = StubJWKS{w}
	}
	cfg.HTTPClient = stubHTTP(w)
	w.JWKSSettle = func() {}
	if o.RealJWKS {
		f := fosite.NewDefaultJWKSFetcherStrategy(fosite.JWKSFetcherWithHTTPClient(stubHTTP(w)))
		cfg.JWKSFetcherStrategy = f
		w.JWKSSettle = f.(*fosite.DefaultJWKSFetcherStrategy).WaitForCache
	}
	if o.Cfg != nil {
		o.Cfg(cfg)
	}
	w.Cfg = cfg
	w.Mem = storage.NewMemoryStore()
	LockOrderRegister(w.Mem)
	w.Mem.Users[UserName] = storage.MemoryUserRelation{Username: UserName, Password: UserPass}
	if o.Mode.Hydrate {
		// the SQL-like store: hydrates the session prototype and annotates its errors
		o.Mode.WrapErrors = true
		o.Mode.RowCount = true
		o.Mode.TTL = true
		o.Mode.StrictTx = true
		o.Mode.LinkRotate = true
	}
	w.Store = NewIStore(w.Mem, o.Mode)
	specs := o.Clients
	if specs == nil {
		specs = DefaultClients()
	}
	for i := range specs {
		w.AddClient(specs[i])
	}
	var key interface{} = k.ServerRSA
	if o.IDKey != nil {
		key = o.IDKey
	}
	w.Key = key
	keyGetter := func(context.Context) (interface{}, error) { return key, nil }
	w.HMAC = compose.NewOAuth2HMACStrategy(cfg)
	var core oauth2.CoreStrategy = w.HMAC
	if o.JWTAccess {
		core = compose.NewOAuth2JWTStrategy(keyGetter, w.HMAC, cfg)
	}
	if o.CoreStrategy != nil {
		core = o.CoreStrategy(cfg)
	}
	w.Core = core
	w.Dev = compose.NewDeviceStrategy(cfg)
	strat := &compose.CommonStrategy{
		CoreStrategy:               core,
		RFC8628CodeStrategy:        w.Dev,
		OpenIDConnectTokenStrategy: compose.NewOpenIDConnectStrategy(keyGetter, cfg),
		Signer:                     &jwt.DefaultSigner{GetPrivateKey: keyGetter},
	}
	var st interface{} = w.Store
	if o.Mode.DB {
		st = TxStore{w.Store}
	}
	w.P = compose.Compose(cfg, st, strat,
		compose.OAuth2AuthorizeExplicitFactory,
		compose.OAuth2AuthorizeImplicitFactory,
		compose.OAuth2ClientCredentialsGrantFactory,
		compose.OAuth2RefreshTokenGrantFactory,
		compose.OAuth2ResourceOwnerPasswordCredentialsFactory,
		compose.RFC7523AssertionGrantFactory,
		compose.RFC8628DeviceFactory,
		compose.RFC8628DeviceAuthorizationTokenFactory,
		compose.OpenIDConnectExplicitFactory,
		compose.OpenIDConnectImplicitFactory,
		compose.OpenIDConnectHybridFactory,
		compose.OpenIDConnectRefreshFactory,
		compose.OpenIDConnectDeviceFactory,
		compose.OAuth2TokenIntrospectionFactory,
		compose.OAuth2TokenRevocationFactory,
		compose.OAuth2PKCEFactory,
		compose.PushedAuthorizeHandlerFactory,
	)
	if o.StatelessIntrospectionFirst {
		if v, ok := compose.OAuth2StatelessJWTIntrospectionFactory(cfg, st, strat).(fosite.TokenIntrospector); ok {
			cfg.TokenIntrospectionHandlers = append(fosite.TokenIntrospectionHandlers{v}, cfg.TokenIntrospectionHandlers...)
		}
	}
	if o.RetiredRevoker {
		retired := &oauth2.TokenRevocationHandler{TokenRevocationStorage: storage.NewMemoryStore(), AccessTokenStrategy: w.HMAC, RefreshTokenStrategy: w.HMAC}
		cfg.RevocationHandlers = append(fosite.RevocationHandlers{retired}, cfg.RevocationHandlers...)
	}
	return w
}

func stubHTTP(w *World) *retryablehttp.Client {
	c := retryablehttp.NewClient()
	c.RetryMax = 0
	c.Logger = nil
	c.HTTPClient = &http.Client{Transport: stubRT{w}}
	return c
}

func (w *World) AddClient(sp ClientSpec) fosite.Client {
	c := sp.Build()
	w.Mem.Clients[sp.ID] = c
	cp := sp
	w.Specs[sp.ID] = &cp
	return c
}

func (w *World) Client(id string) fosite.Client { return w.Mem.Clients[id] }

// NextOp allocates an operation id.
func (w *World) NextOp() int {
	w.opMu.Lock()
	defer w.opMu.Unlock()
	w.opNext++
	return w.opNext
}

// AddBearerKey registers a JWT-bearer issuer key.
func (w *World) AddBearerKey(issuer, subject, kid string, pub interface{}, alg string, scopes []string) {
	ik, ok := w.Mem.IssuerPublicKeys[issuer]
	if !ok {
		ik = storage.IssuerPublicKeys{Issuer: issuer, KeysBySub: map[string]storage.SubjectPublicKeys{}}
	}
	sk, ok := ik.KeysBySub[subject]
	if !ok {
		sk = storage.SubjectPublicKeys{Subject: subject, Keys: map[string]storage.PublicKeyScopes{}}
	}
	sk.Keys[kid] = storage.PublicKeyScopes{Key: &jose.JSONWebKey{Key: pub, Algorithm: alg, Use: "sig", KeyID: kid}, Scopes: scopes}
	ik.KeysBySub[subject] = sk
	w.Mem.IssuerPublicKeys[issuer] = ik
}

func (w *World) DeviceStrategy() *rfc8628.DefaultDeviceStrategy { return w.Dev }

// Session returns a fresh session for a request (the harness type, or the configured shipped type).
func (w *World) Session(sub string) fosite.Session {
	if w.Opts.SessFactory != nil {
		return w.Opts.SessFactory(sub)
	}
	return NewSess(sub)
}
