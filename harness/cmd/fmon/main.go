// fmon runs one monitor shard: fmon -prop C01 -tier quick -seed 1 -shard 0 -nshards 16 -out file
package main

import (
	"flag"
	"fmt"
	"os"
	"runtime/debug"
	"sort"

	"fverif/mon"
	"fverif/run"
)

func main() {
	prop := flag.String("prop", "", "monitor name")
	tier := flag.String("tier", "quick", "quick|thorough")
	seed := flag.Int64("seed", 1, "seed")
	shard := flag.Int("shard", 0, "shard index")
	nshards := flag.Int("nshards", 1, "number of shards")
	out := flag.String("out", "", "result file")
	only := flag.String("only", "", "run only this case id (replay)")
	list := flag.Bool("list", false, "list monitors")
	flag.Parse()
	if *list {
		var ks []string
		for k := range mon.Registry {
			ks = append(ks, k)
		}
		sort.Strings(ks)
		for _, k := range ks {
			fmt.Println(k)
		}
		return
	}
	f, ok := mon.Registry[*prop]
	if !ok {
		fmt.Fprintln(os.Stderr, "unknown monitor", *prop)
		os.Exit(2)
	}
	c := run.New(*prop, *tier, *seed, *shard, *nshards)
	c.Only = *only
	code := 0
	func() {
		defer func() {
			if r := recover(); r != nil {
				c.Inconcl(fmt.Sprintf("panic in monitor process: %v\n%s", r, debug.Stack()))
				code = 4
			}
		}()
		f(c)
	}()
	if *out != "" {
		if err := c.Write(*out, code == 0); err != nil {
			fmt.Fprintln(os.Stderr, "write:", err)
			os.Exit(2)
		}
	}
	os.Exit(code)
}
