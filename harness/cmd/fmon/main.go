package main

import (
	"fmt"
	"os"
	"time"

	"github.com/anishathalye/porcupine"
	"github.com/ory/fosite"
	"github.com/ory/fosite/compose"
	"github.com/ory/fosite/storage"
	"crypto/rsa"
	"crypto/rand"
)

func main() {
	_ = porcupine.Ok
	k, _ := rsa.GenerateKey(rand.Reader, 2048)
	p := compose.ComposeAllEnabled(&fosite.Config{GlobalSecret: []byte("0123456789012345678901234567890123456789")}, storage.NewMemoryStore(), k)
	_ = p
	t0 := time.Now()
	time.Sleep(36 * time.Hour)
	f, _ := os.Create("/tmp/fmon_probe.txt")
	fmt.Fprintf(f, "t0=%v now=%v\n", t0, time.Now())
	f.Close()
}
