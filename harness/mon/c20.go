package mon

import (
	"context"
	"encoding/json"
	"errors"
	"fmt"
	"net/http"
	"net/http/httptest"
	"net/url"
	"strings"
	"sync"
	"time"

	"github.com/go-jose/go-jose/v3"
	"golang.org/x/net/html"

	"github.com/ory/fosite"

	"fverif/run"
	"fverif/sim"
	"fverif/world"
)

func init() {
	Registry["C20resp"] = c20resp
	Registry["C20taint"] = c20taint
}

var c20Errors = map[string]*fosite.RFC6749Error{
	"ErrSerializationFailure": fosite.ErrSerializationFailure, "ErrUnknownRequest": fosite.ErrUnknownRequest, "ErrRequestForbidden": fosite.ErrRequestForbidden,
	"ErrInvalidRequest": fosite.ErrInvalidRequest, "ErrUnauthorizedClient": fosite.ErrUnauthorizedClient, "ErrAccessDenied": fosite.ErrAccessDenied,
	"ErrUnsupportedResponseType": fosite.ErrUnsupportedResponseType, "ErrUnsupportedResponseMode": fosite.ErrUnsupportedResponseMode, "ErrInvalidScope": fosite.ErrInvalidScope,
	"ErrServerError": fosite.ErrServerError, "ErrTemporarilyUnavailable": fosite.ErrTemporarilyUnavailable, "ErrUnsupportedGrantType": fosite.ErrUnsupportedGrantType,
	"ErrInvalidGrant": fosite.ErrInvalidGrant, "ErrInvalidClient": fosite.ErrInvalidClient, "ErrInvalidState": fosite.ErrInvalidState, "ErrMisconfiguration": fosite.ErrMisconfiguration,
	"ErrInsufficientEntropy": fosite.ErrInsufficientEntropy, "ErrNotFound": fosite.ErrNotFound, "ErrRequestUnauthorized": fosite.ErrRequestUnauthorized,
	"ErrTokenSignatureMismatch": fosite.ErrTokenSignatureMismatch, "ErrInvalidTokenFormat": fosite.ErrInvalidTokenFormat, "ErrTokenExpired": fosite.ErrTokenExpired,
	"ErrScopeNotGranted": fosite.ErrScopeNotGranted, "ErrTokenClaim": fosite.ErrTokenClaim, "ErrInactiveToken": fosite.ErrInactiveToken, "ErrLoginRequired": fosite.ErrLoginRequired,
	"ErrInteractionRequired": fosite.ErrInteractionRequired, "ErrConsentRequired": fosite.ErrConsentRequired, "ErrRequestNotSupported": fosite.ErrRequestNotSupported,
	"ErrRequestURINotSupported": fosite.ErrRequestURINotSupported, "ErrRegistrationNotSupported": fosite.ErrRegistrationNotSupported, "ErrInvalidRequestURI": fosite.ErrInvalidRequestURI,
	"ErrInvalidRequestObject": fosite.ErrInvalidRequestObject, "ErrJTIKnown": fosite.ErrJTIKnown, "ErrAuthorizationPending": fosite.ErrAuthorizationPending,
	"ErrSlowDown": fosite.ErrSlowDown, "ErrDeviceExpiredToken": fosite.ErrDeviceExpiredToken,
}

var c20Payloads = []string{
	"plain text", `he said "hi" and 'bye'`, `<script>alert(1)</script>`, `a&admin=1#frag=2`, "line1\r\nLocation: https://evil.example\r\n\r\n<html>", "nul\x00byte", "bad-utf8-\xff\xfe-end",
	strings.Repeat("long", 1500), `"></form><form action="https://evil.example/steal"><input name="x" value="`, `'"><img src=x onerror=alert(1)>`, `{"error":"none"}`, `%0d%0aSet-Cookie:%20a=b`, "back\\slash\\\"", "   unicode separators", "&lt;already&gt;&amp;",
}

const (
	hintCanary  = "HINT-CANARY-41b7"
	debugCanary = "DEBUG-CANARY-9c2e"
)

func cacheHeadersOK(h map[string][]string) bool {
	// the directive has to be there; further directives next to it are fine
	return strings.Contains(strings.ToLower(strings.Join(h["Cache-Control"], ",")), "no-store") && strings.Contains(strings.ToLower(strings.Join(h["Pragma"], ",")), "no-cache")
}

func c20resp(c *run.Ctx) {
	c.Need("c20_json_errors", 1)
	c.Need("c20_redirect_errors", 1)
	c.Need("c20_form_post_pages", 1)
	c.Need("c20_success_writes", 1)
	ctx := context.Background()
	var names []string
	for n := range c20Errors {
		names = append(names, n)
	}
	sortStrings(names)
	idx := 0
	stride := uint64(1)
	if c.Quick() {
		stride = 3
	} else {
		c.Exhaustive = true
	}
	for _, legacy := range []bool{false, true} {
		for _, expose := range []bool{false, true} {
			w := world.New(world.Opts{Cfg: func(cfg *fosite.Config) { cfg.UseLegacyErrorFormat = legacy; cfg.SendDebugMessagesToClients = expose }})
			w.AddClient(world.ClientSpec{ID: "c20", Kind: "rich", Secret: "s20", AuthMethod: "client_secret_basic", RedirectURIs: []string{"https://c20.example/cb?tenant=t1", "https://c20.example/plain"},
				GrantTypes: world.AllGrants, ResponseTypes: world.AllResponseTypes, Scopes: []string{"openid", "fosite"}, ResponseModes: world.AllModes})
			for _, en := range names {
				base := c20Errors[en]
				for pi, payload := range c20Payloads {
					idx++
					if !c.Mine(idx) || (stride > 1 && mix(uint64(idx), uint64(c.Seed))%stride != 0) {
						continue
					}
					e := base.WithHint(hintCanary + payload).WithDebug(debugCanary + payload)
					hist := []string{fmt.Sprintf("error=%s payload#%d=%q legacy=%v expose-debug=%v", en, pi, payload, legacy, expose)}
					viol := func(kind, key, detail string) {
						c.Violate(run.Violation{Kind: kind, Key: kind + " " + key, Case: fmt.Sprint(idx), Detail: detail, History: hist})
					}
					checkJSON := func(writer string, rec *httptest.ResponseRecorder, wantName string, wantStatus int) {
						c.Case(fmt.Sprintf("json writer=%s legacy=%v expose=%v error=%s", writer, legacy, expose, wantName))
						c.Count("c20_json_errors", 1)
						body := rec.Body.String()
						var m map[string]interface{}
						if err := json.Unmarshal([]byte(body), &m); err != nil {
							viol("error-body-not-json", writer, "body is not a JSON object: "+err.Error()+" | "+body)
							return
						}
						if m["error"] != wantName {
							viol("error-code-wrong", writer, fmt.Sprintf("error=%v want %s", m["error"], wantName))
						}
						if rec.Code != wantStatus {
							viol("error-status-wrong", writer, fmt.Sprintf("status %d want %d for %s", rec.Code, wantStatus, wantName))
						}
						if !strings.HasPrefix(rec.Header().Get("Content-Type"), "application/json") {
							viol("error-content-type", writer, rec.Header().Get("Content-Type"))
						}
						if !cacheHeadersOK(rec.Header()) {
							viol("cache-headers-missing", writer, fmt.Sprint(rec.Header()))
						}
						if !expose && strings.Contains(body, debugCanary) {
							viol("debug-leaked", writer, "debug text present although exposure is off: "+body)
						}
						allowed := map[string]bool{"error": true, "error_description": true}
						if legacy {
							allowed["error_hint"], allowed["status_code"], allowed["error_debug"] = true, true, true
						}
						for k := range m {
							if !allowed[k] && k != "active" {
								// further members (error_uri, ...) are legal in an RFC 6749 error body: observed, not judged
								c.Count("c20_error_body_other_member:"+k, 1)
							}
						}
					}
					// --- JSON writers
					rec := httptest.NewRecorder()
					w.P.WriteAccessError(ctx, rec, fosite.NewAccessRequest(world.NewSess("")), e)
					checkJSON("WriteAccessError", rec, base.ErrorField, base.CodeField)
					rec = httptest.NewRecorder()
					w.P.WritePushedAuthorizeError(ctx, rec, fosite.NewAuthorizeRequest(), e)
					checkJSON("WritePushedAuthorizeError", rec, base.ErrorField, base.CodeField)
					if base == fosite.ErrInvalidRequest || base == fosite.ErrRequestUnauthorized {
						rec = httptest.NewRecorder()
						w.P.WriteIntrospectionError(ctx, rec, e)
						checkJSON("WriteIntrospectionError", rec, base.ErrorField, base.CodeField)
					} else {
						rec = httptest.NewRecorder()
						w.P.WriteIntrospectionError(ctx, rec, e)
						c.Count("c20_json_errors", 1)
						var m map[string]interface{}
						if json.Unmarshal(rec.Body.Bytes(), &m) != nil || len(m) != 1 || m["active"] != false {
							viol("introspection-error-body", "", rec.Body.String())
						}
						if !cacheHeadersOK(rec.Header()) {
							viol("cache-headers-missing", "WriteIntrospectionError", fmt.Sprint(rec.Header()))
						}
					}
					rec = httptest.NewRecorder()
					w.P.WriteRevocationResponse(ctx, rec, e)
					if !cacheHeadersOK(rec.Header()) {
						viol("cache-headers-missing", "WriteRevocationResponse", fmt.Sprint(rec.Header()))
					}
					// debug detail only when the operator enabled it; a hint (which the other writers put into error_description
					// too) is not debug detail
					if !expose && strings.Contains(rec.Body.String(), debugCanary) {
						viol("debug-leaked", "WriteRevocationResponse", rec.Body.String())
					}
					if rec.Body.Len() > 0 {
						var m map[string]interface{}
						if json.Unmarshal(rec.Body.Bytes(), &m) != nil {
							viol("error-body-not-json", "WriteRevocationResponse", rec.Body.String())
						}
					}
					// --- authorize errors in every response mode, with a hostile state
					state := "st-" + payload
					if len(state) > 200 {
						state = state[:200]
					}
					for _, mode := range []string{"", "query", "fragment", "form_post", "invalid-redirect"} {
						for ri, redirect := range []string{"https://c20.example/cb?tenant=t1", "https://c20.example/plain"} {
							if (pi+ri)%2 == 1 && mode != "form_post" {
								continue
							}
							q := url.Values{"client_id": {"c20"}, "response_type": {"code"}, "scope": {"fosite"}, "state": {state}, "redirect_uri": {redirect}}
							if mode == "invalid-redirect" {
								q.Set("redirect_uri", "https://evil.example/cb")
							} else if mode != "" {
								q.Set("response_mode", mode)
							}
							r := httptest.NewRequest("GET", "https://as.example/oauth2/auth?"+q.Encode(), nil)
							ar, _ := w.P.NewAuthorizeRequest(ctx, r)
							rec := httptest.NewRecorder()
							w.P.WriteAuthorizeError(ctx, rec, ar, e)
							out := &world.AuthzOut{}
							parseAuthzPublic(rec, out)
							c.Case(fmt.Sprintf("authorize-error mode=%s kind=%s legacy=%v expose=%v", mode, out.Kind, legacy, expose))
							if !cacheHeadersOK(rec.Header()) {
								viol("cache-headers-missing", "WriteAuthorizeError mode="+mode, fmt.Sprint(rec.Header()))
							}
							if mode == "invalid-redirect" {
								checkJSON("WriteAuthorizeError(no redirect)", rec, base.ErrorField, base.CodeField)
								continue
							}
							expected := map[string]bool{"error": true, "error_description": true, "state": true}
							if legacy {
								expected["error_hint"], expected["error_debug"] = true, true
							}
							checkParams := func(where string, got url.Values, own url.Values) {
								for k, vs := range got {
									if own != nil && own.Get(k) != "" && !expected[k] {
										continue
									}
									if !expected[k] {
										viol("reflected-value-injected-parameter", where+" mode="+mode, fmt.Sprintf("unexpected parameter %q=%q", k, vs))
									}
									if len(vs) != 1 {
										viol("reflected-value-injected-parameter", where+" duplicate mode="+mode, fmt.Sprintf("parameter %q occurs %d times", k, len(vs)))
									}
								}
								if got.Get("error") != base.ErrorField {
									viol("error-code-wrong", where, fmt.Sprintf("error=%q want %s", got.Get("error"), base.ErrorField))
								}
								wantState := state
								if where == "form_post" {
									wantState = htmlText(state)
								}
								if got.Get("state") != wantState {
									viol("state-not-echoed", where+" mode="+mode, fmt.Sprintf("state %q != %q", got.Get("state"), wantState))
								}
								if !expose {
									for _, vs := range got {
										for _, v := range vs {
											if strings.Contains(v, debugCanary) {
												viol("debug-leaked", where, "debug text in redirected error although exposure is off")
											}
										}
									}
								}
							}
							switch out.Kind {
							case "redirect":
								c.Count("c20_redirect_errors", 1)
								if strings.ContainsAny(out.Location, "\r\n\x00") {
									viol("header-injection", "Location", fmt.Sprintf("raw control character in Location %q", out.Location))
								}
								if out.Target == nil || out.Target.Host != "c20.example" || out.Target.Scheme != "https" || (out.Target.Path != "/cb" && out.Target.Path != "/plain") {
									viol("redirect-target-changed", mode, out.Location)
									continue
								}
								ru, _ := url.Parse(redirect)
								own := ru.Query()
								if mode == "fragment" {
									checkParams("fragment", out.Fragment, nil)
									if out.Target.RawQuery != ru.RawQuery {
										viol("redirect-target-changed", "query-in-fragment-mode", out.Location)
									}
								} else {
									checkParams("query", out.Query, own)
									if len(out.Fragment) != 0 {
										viol("reflected-value-injected-parameter", "fragment-in-query-mode", out.Location)
									}
									for k := range own {
										if out.Query.Get(k) != own.Get(k) {
											viol("redirect-target-changed", "own-query-lost", out.Location)
										}
									}
								}
							case "form_post":
								c.Count("c20_form_post_pages", 1)
								checkParams("form_post", out.Form, nil)
								if out.Action != redirect {
									viol("form-action-changed", "", fmt.Sprintf("action %q != %q", out.Action, redirect))
								}
								if bad := foreignElements(out.HTML); bad != "" {
									viol("form-post-structure", bad, "the page contains an element the template does not have: "+bad)
								}
								if !strings.HasPrefix(rec.Header().Get("Content-Type"), "text/html") {
									viol("error-content-type", "form_post", rec.Header().Get("Content-Type"))
								}
							default:
								viol("authorize-error-unparsable", mode, fmt.Sprintf("kind=%s status=%d body=%s", out.Kind, rec.Code, rec.Body.String()))
							}
						}
					}
					// --- success writers with the hostile state
					for _, mode := range []string{"", "query", "fragment", "form_post"} {
						for _, rt := range []string{"code", "token"} {
							if mode == "query" && rt == "token" {
								continue
							}
							q := url.Values{"client_id": {"c20"}, "response_type": {rt}, "scope": {"fosite"}, "state": {state}, "redirect_uri": {"https://c20.example/cb?tenant=t1"}}
							if mode != "" {
								q.Set("response_mode", mode)
							}
							out := w.Authorize(q, world.Consent{})
							c.Case(fmt.Sprintf("authorize-success mode=%s rt=%s kind=%s", mode, rt, out.Kind))
							c.Count("c20_success_writes", 1)
							if out.Err != nil {
								continue
							}
							if !cacheHeadersOK(out.Header) {
								viol("cache-headers-missing", "WriteAuthorizeResponse mode="+mode, fmt.Sprint(out.Header))
							}
							wantState := state
							if out.Kind == "form_post" {
								wantState = htmlText(state)
							}
							if out.Params.Get("state") != wantState || len(out.Params["state"]) != 1 {
								viol("state-not-echoed", "success mode="+mode, fmt.Sprintf("%q != %q", out.Params["state"], wantState))
							}
							okKeys := map[string]bool{"code": true, "state": true, "scope": true, "access_token": true, "token_type": true, "expires_in": true, "tenant": true}
							for k := range out.Params {
								if !okKeys[k] {
									viol("reflected-value-injected-parameter", "success mode="+mode, "unexpected parameter "+k)
								}
							}
							if out.Kind == "redirect" && strings.ContainsAny(out.Location, "\r\n\x00") {
								viol("header-injection", "Location success", fmt.Sprintf("%q", out.Location))
							}
							if out.Kind == "form_post" {
								c.Count("c20_form_post_pages", 1)
								if bad := foreignElements(out.HTML); bad != "" {
									viol("form-post-structure", bad, "element injected into the form_post page")
								}
								if out.Action != "https://c20.example/cb?tenant=t1" {
									viol("form-action-changed", "success", out.Action)
								}
							}
						}
					}
				}
			}
			// the remaining success writers
			a := world.Basic("c20", "s20")
			t := w.Token(url.Values{"grant_type": {"client_credentials"}, "scope": {"fosite"}}, a)
			in := w.IntrospectHTTP(url.Values{"token": {t.S("access_token")}}, a, "")
			in2 := w.IntrospectHTTP(url.Values{"token": {"garbage"}}, a, "")
			dv := w.Device(url.Values{"client_id": {"c20"}, "scope": {"fosite"}}, a)
			par := w.PAR(url.Values{"client_id": {"c20"}, "response_type": {"code"}, "state": {"state-0123456789"}, "redirect_uri": {"https://c20.example/plain"}}, a)
			rv := w.Revoke(url.Values{"token": {t.S("access_token")}}, a)
			terr := w.Token(url.Values{"grant_type": {"client_credentials"}}, world.Basic("c20", "wrong"))
			for name, o := range map[string]*world.Out{"WriteAccessResponse": t, "WriteIntrospectionResponse": in, "WriteIntrospectionResponse(inactive)": in2, "WriteDeviceResponse": dv, "WritePushedAuthorizeResponse": par, "WriteRevocationResponse": rv, "WriteAccessError(real)": terr} {
				c.Count("c20_success_writes", 1)
				c.Case("writer " + name)
				if !cacheHeadersOK(o.Header) {
					c.Violate(run.Violation{Kind: "cache-headers-missing", Key: "cache-headers-missing " + name, Detail: fmt.Sprint(o.Header)})
				}
			}
		}
	}
	c.Sample(map[string]interface{}{"errors": len(names), "payloads": c20Payloads[:6]})
	c20Custom(c)
	c20FaultLeak(c)
	c20TimeClaims(c)
}

// c20FaultLeak: the text of a failing storage call is internal detail. Every token-issuing / revoking flow of the C18 catalogue
// (code, refresh, both replay handlings, device, PAR, revocation, ...) is run with a generic storage error injected at each
// storage call in turn, debug exposure off; no HTTP response produced during the request may contain the error's text.
func c20FaultLeak(c *run.Ctx) {
	if !c.Mine(9) && c.NShards > 9 {
		return
	}
	flows := c18Flows()
	for _, fl := range flows {
		for _, db := range []bool{false, true} {
			mk := func() (*c18State, bool) {
				w := world.New(world.Opts{Mode: world.Mode{DB: db, ContractDevice: true}})
				st := &c18State{w: w, client: "conf-a"}
				st.s = sim.New(w, c, "none")
				st.by = st.s.Password("conf-b", []string{"offline", "fosite"})
				ok := fl.prep(st)
				return st, ok
			}
			st0, ok := mk()
			if !ok {
				continue
			}
			var recorded []world.Call
			st0.w.Store.Tap = func(cl world.Call) { recorded = append(recorded, cl) }
			fl.fire(st0)
			st0.w.Store.Tap = nil
			for kk := 0; kk < 2*len(recorded); kk++ {
				k, fkind := kk%len(recorded), "generic"
				if kk >= len(recorded) {
					// the store's own way of saying "conflict, try again": whatever the handler makes of it, the response names an error code
					fkind = "serialization"
					if !recorded[k].Write {
						continue
					}
				}
				st, ok := mk()
				if !ok {
					break
				}
				n := 0
				st.w.Store.Pre = func(cl *world.Call) error {
					i := n
					n++
					if i == k {
						return faultErr(fkind)
					}
					return nil
				}
				var leaked, unrecognisable []string
				world.RespTap = func(status int, h http.Header, body string) {
					if strings.Contains(body, "STORAGE-CANARY") || strings.Contains(fmt.Sprint(h), "STORAGE-CANARY") {
						leaked = append(leaked, fmt.Sprintf("status %d location %q body %s", status, h.Get("Location"), body))
					}
					// an error body names an error code; the catch-all "error" (fosite's rendering of an error it does not recognise)
					// is not one
					if status >= 400 && strings.HasPrefix(h.Get("Content-Type"), "application/json") {
						var m map[string]interface{}
						if json.Unmarshal([]byte(body), &m) == nil && m["error"] == "error" {
							unrecognisable = append(unrecognisable, fmt.Sprintf("status %d body %s", status, body))
						}
					}
					if loc := h.Get("Location"); loc != "" {
						if u, err := url.Parse(loc); err == nil && (u.Query().Get("error") == "error" || strings.Contains(u.Fragment, "error=error&") || strings.HasSuffix(u.Fragment, "error=error")) {
							unrecognisable = append(unrecognisable, fmt.Sprintf("status %d location %s", status, loc))
						}
					}
				}
				fl.fire(st)
				world.RespTap = nil
				st.w.Store.Pre = nil
				c.Case(fmt.Sprintf("storage-fault-text flow=%s db=%v call=%s leaked=%v", fl.name, db, recorded[k].Method, len(leaked) > 0))
				c.Count("c20_fault_responses_scanned", 1)
				if len(unrecognisable) > 0 {
					c.Violate(run.Violation{Kind: "error-code-not-rfc", Key: fmt.Sprintf("error-code-not-rfc storage failure (%s) flow=%s call=%s", fkind, fl.name, recorded[k].Method),
						Detail: "the error response names no error code of the protocol but the catch-all \"error\": " + unrecognisable[0]})
				}
				if len(leaked) > 0 {
					c.Violate(run.Violation{Kind: "debug-leaked", Key: fmt.Sprintf("debug-leaked storage error text flow=%s call=%s", fl.name, recorded[k].Method),
						Detail: "debug exposure is off, yet the response carries the text of the failed storage call: " + leaked[0]})
				}
			}
		}
	}
}

// c20PageMode is an integrator-supplied response mode written the way the ResponseModeHandler contract describes: it writes
// the page and relies on fosite for the cache directives ("Following headers are expected to be set by default").
type c20PageMode struct{}

func (c20PageMode) ResponseModes() fosite.ResponseModeTypes {
	return fosite.ResponseModeTypes{"page_post"}
}
func (c20PageMode) WriteAuthorizeResponse(ctx context.Context, rw http.ResponseWriter, ar fosite.AuthorizeRequester, resp fosite.AuthorizeResponder) {
	rw.Header().Set("Content-Type", "text/html;charset=UTF-8")
	fosite.WriteAuthorizeFormPostResponse(ar.GetRedirectURI().String(), resp.GetParameters(), fosite.DefaultFormPostTemplate, rw)
}
func (c20PageMode) WriteAuthorizeError(ctx context.Context, rw http.ResponseWriter, ar fosite.AuthorizeRequester, err error) {
	rfc := fosite.ErrorToRFC6749Error(err)
	rw.Header().Set("Content-Type", "text/html;charset=UTF-8")
	fosite.WriteAuthorizeFormPostResponse(ar.GetRedirectURI().String(), rfc.ToValues(), fosite.DefaultFormPostTemplate, rw)
}

// c20FailFetcher is an integrator-supplied JWKS fetcher whose failures are ordinary Go errors carrying internal detail.
type c20FailFetcher struct{}

const fetchCanary = "INTERNAL-FETCH-CANARY-77d1 dial tcp 10.1.2.3:3128: proxy refused"

func (c20FailFetcher) Resolve(ctx context.Context, location string, ignoreCache bool) (*jose.JSONWebKeySet, error) {
	return nil, errors.New(fetchCanary)
}

// c20TimeClaims: JWTs whose time claims are out of range (an expired / not yet valid / postdated OpenID Connect request object
// at the authorization and the push endpoint, such a client assertion at the token endpoint) are refused with an error response
// that names an error code of the protocol - not fosite's catch-all for an error it does not recognise - and a matching status.
func c20TimeClaims(c *run.Ctx) {
	if !c.Mine(11) && c.NShards > 11 {
		return
	}
	keys := world.GetKeys()
	w := world.New(world.Opts{})
	jwks := &jose.JSONWebKeySet{Keys: []jose.JSONWebKey{{Key: &keys.ClientRSA[0].PublicKey, KeyID: "k0", Algorithm: "RS256", Use: "sig"}}}
	w.AddClient(world.ClientSpec{ID: "ro20", Kind: "oidc", Secret: "s-ro20", AuthMethod: "client_secret_basic", JWKS: jwks, ReqObjAlg: "RS256", RequestURIs: []string{"https://client.example/ro20.jwt"},
		RedirectURIs: []string{"https://ro20.example/cb"}, GrantTypes: world.AllGrants, ResponseTypes: world.AllResponseTypes, Scopes: []string{"openid", "fosite"}})
	w.AddClient(world.ClientSpec{ID: "pk20", Kind: "oidc", AuthMethod: "private_key_jwt", AuthSigAlg: "RS256", JWKS: jwks, RedirectURIs: []string{"https://pk20.example/cb"},
		GrantTypes: world.AllGrants, ResponseTypes: world.AllResponseTypes, Scopes: []string{"openid", "fosite"}})
	now := time.Now()
	for _, tc := range []struct {
		name string
		set  map[string]interface{}
	}{
		{"expired", map[string]interface{}{"exp": now.Add(-time.Hour).Unix()}},
		{"not-yet-valid", map[string]interface{}{"exp": now.Add(2 * time.Hour).Unix(), "nbf": now.Add(time.Hour).Unix()}},
		{"issued-in-the-future", map[string]interface{}{"exp": now.Add(2 * time.Hour).Unix(), "iat": now.Add(time.Hour).Unix()}},
	} {
		judge := func(where string, status int, errCode interface{}, detail string) {
			c.Case(fmt.Sprintf("time-claims %s at %s -> status=%d error=%v", tc.name, where, status, errCode))
			c.Count("c20_time_claim_refusals", 1)
			if errCode == "error" || errCode == nil || errCode == "" {
				c.Violate(run.Violation{Kind: "error-code-not-rfc", Key: fmt.Sprintf("error-code-not-rfc %s %s", where, tc.name),
					Detail: fmt.Sprintf("the refusal names no error code of the protocol (error=%v, HTTP %d): %s", errCode, status, detail)})
			}
		}
		claims := map[string]interface{}{"iss": "ro20", "aud": world.Issuer, "client_id": "ro20", "response_type": "code", "scope": "openid fosite", "state": "object-state-0123456789",
			"redirect_uri": "https://ro20.example/cb", "nonce": "nonce-0123456789"}
		for k, v := range tc.set {
			claims[k] = v
		}
		obj := world.SignJWT(keys.ClientRSA[0], "RS256", map[string]interface{}{"kid": "k0"}, claims)
		q := url.Values{"client_id": {"ro20"}, "response_type": {"code"}, "scope": {"openid"}, "state": {"query-state-0123456789"}, "redirect_uri": {"https://ro20.example/cb"}, "nonce": {"nonce-0123456789"}, "request": {obj}}
		if az := w.Authorize(q, world.Consent{}); az.Err != nil {
			code := interface{}(az.Params.Get("error"))
			if az.Kind == "json" {
				code = az.JSON["error"]
			}
			judge("authorize(request object)", az.Status, code, az.Kind+" "+az.Location+" "+az.Body)
		} else {
			c.Unspecified("request-object-" + tc.name + "-accepted")
		}
		pq := url.Values{"response_type": {"code"}, "scope": {"openid"}, "state": {"query-state-0123456789"}, "redirect_uri": {"https://ro20.example/cb"}, "nonce": {"nonce-0123456789"}, "request": {obj}}
		if p := w.PAR(pq, world.Basic("ro20", "s-ro20")); p.Err != nil {
			judge("par(request object)", p.Status, p.JSON["error"], p.Body)
		} else {
			c.Unspecified("pushed-request-object-" + tc.name + "-accepted")
		}
		acl := map[string]interface{}{"iss": "pk20", "sub": "pk20", "aud": world.TokenURL, "jti": nextJTI("c20time")}
		for k, v := range tc.set {
			acl[k] = v
		}
		as := world.SignJWT(keys.ClientRSA[0], "RS256", map[string]interface{}{"kid": "k0"}, acl)
		if t := w.Token(url.Values{"grant_type": {"client_credentials"}, "scope": {"fosite"}}, world.Auth{Mode: "none", Assertion: as}); t.Err != nil {
			judge("token(client assertion)", t.Status, t.JSON["error"], t.Body)
		} else {
			c.Unspecified("client-assertion-" + tc.name + "-accepted")
		}
	}
	c.Sample(map[string]interface{}{"time_claims": "expired / nbf in the future / iat in the future x {authorize request object, pushed request object, client assertion}"})
}

// c20Custom: the cache directives and the debug-confinement rule also hold when the integrator plugs in a custom response
// mode or a custom key fetcher.
func c20Custom(c *run.Ctx) {
	if !c.Mine(7) && c.NShards > 7 {
		return
	}
	ctx := context.Background()
	keys := world.GetKeys()
	for _, expose := range []bool{false, true} {
		w := world.New(world.Opts{Cfg: func(cfg *fosite.Config) {
			cfg.SendDebugMessagesToClients = expose
			cfg.ResponseModeHandlerExtension = c20PageMode{}
			cfg.JWKSFetcherStrategy = c20FailFetcher{}
		}})
		w.AddClient(world.ClientSpec{ID: "c20x", Kind: "rich", Secret: "s20x", AuthMethod: "client_secret_basic", RedirectURIs: []string{"https://c20x.example/cb"}, GrantTypes: world.AllGrants,
			ResponseTypes: world.AllResponseTypes, Scopes: []string{"openid", "fosite"}, ResponseModes: append(append([]fosite.ResponseModeType{}, world.AllModes...), "page_post")})
		w.AddClient(world.ClientSpec{ID: "c20j", Kind: "oidc", Secret: "s20j", AuthMethod: "client_secret_basic", JWKSURI: "https://keys.example/c20j.json", RequestURIs: []string{"https://client.example/c20j.jwt"},
			RedirectURIs: []string{"https://c20j.example/cb"}, GrantTypes: world.AllGrants, ResponseTypes: world.AllResponseTypes, Scopes: []string{"openid", "fosite"}})
		// ---- custom response mode
		for _, rt := range []string{"code", "token", "code id_token"} {
			q := url.Values{"client_id": {"c20x"}, "response_type": {rt}, "scope": {"openid fosite"}, "state": {"state-0123456789"}, "nonce": {"nonce-0123456789"}, "redirect_uri": {"https://c20x.example/cb"}, "response_mode": {"page_post"}}
			for _, deny := range []bool{false, true} {
				out := w.Authorize(q, world.Consent{Deny: deny})
				c.Case(fmt.Sprintf("custom-response-mode rt=%q denied=%v status=%d err=%s", rt, deny, out.Status, out.ErrName))
				c.Count("c20_custom_mode_writes", 1)
				if !cacheHeadersOK(out.Header) {
					c.Violate(run.Violation{Kind: "cache-headers-missing", Key: fmt.Sprintf("cache-headers-missing custom response mode error=%v", out.Err != nil), Detail: fmt.Sprintf("rt=%s denied=%v headers=%v", rt, deny, out.Header)})
				}
			}
		}
		names := []string{"ErrAccessDenied", "ErrServerError", "ErrInvalidScope", "ErrLoginRequired", "ErrInvalidRequest", "ErrTemporarilyUnavailable"}
		for _, en := range names {
			r := httptest.NewRequest("GET", "https://as.example/oauth2/auth?"+url.Values{"client_id": {"c20x"}, "response_type": {"code"}, "scope": {"fosite"}, "state": {"state-0123456789"},
				"redirect_uri": {"https://c20x.example/cb"}, "response_mode": {"page_post"}}.Encode(), nil)
			ar, err := w.P.NewAuthorizeRequest(ctx, r)
			if err != nil {
				c.Inconcl("custom response mode request refused: " + world.ErrDetail(err))
				continue
			}
			rec := httptest.NewRecorder()
			w.P.WriteAuthorizeError(ctx, rec, ar, c20Errors[en].WithHint(hintCanary).WithDebug(debugCanary))
			c.Case("custom-response-mode WriteAuthorizeError " + en)
			c.Count("c20_custom_mode_writes", 1)
			if !cacheHeadersOK(rec.Header()) {
				c.Violate(run.Violation{Kind: "cache-headers-missing", Key: "cache-headers-missing custom response mode error=true", Detail: fmt.Sprintf("%s headers=%v", en, rec.Header())})
			}
			// the handler renders the error it is handed the way the repository's own example does (ErrorToRFC6749Error(err).ToValues()):
			// with exposure off the debug text must not be in what it gets to render
			if !expose && strings.Contains(rec.Body.String(), debugCanary) {
				c.Violate(run.Violation{Kind: "debug-leaked", Key: "debug-leaked custom response mode", Detail: "debug text reached the page of a custom response mode although exposure is off: " + rec.Body.String()})
			}
		}
		// ---- failing custom key fetcher: its error text is internal detail
		obj := world.SignJWT(keys.ClientRSA[0], "RS256", map[string]interface{}{"kid": "k0"}, map[string]interface{}{"iss": "c20j", "aud": world.Issuer, "client_id": "c20j", "response_type": "code",
			"scope": "openid fosite", "state": "object-state-0123456789", "redirect_uri": "https://c20j.example/cb", "exp": time.Now().Add(time.Hour).Unix()})
		w.Fetch = func(u string) (int, string) { return 200, obj }
		q := url.Values{"client_id": {"c20j"}, "response_type": {"code"}, "scope": {"openid"}, "state": {"query-state-0123456789"}, "redirect_uri": {"https://c20j.example/cb"}}
		leak := func(where, text string) {
			c.Case(fmt.Sprintf("failing-key-fetcher %s expose=%v leaked=%v", where, expose, strings.Contains(text, "FETCH-CANARY")))
			c.Count("c20_fetcher_failures_written", 1)
			if !expose && strings.Contains(text, "FETCH-CANARY") {
				c.Violate(run.Violation{Kind: "debug-leaked", Key: "debug-leaked key-fetcher error text " + where, Detail: "the text of an internal error reached the client although debug exposure is off: " + text})
			}
		}
		// the fetch of a registered request_uri fails at the transport: the dialer's error text is internal detail too
		w.FetchErr = func(u string) error {
			return errors.New("dial tcp 10.1.2.3:3128: connect: connection refused " + fetchCanary)
		}
		qt := url.Values{}
		for k, v := range q {
			qt[k] = v
		}
		qt.Set("request_uri", "https://client.example/c20j.jwt")
		outT := w.Authorize(qt, world.Consent{})
		leak("authorize request_uri transport-failure", outT.Location+" "+outT.Body)
		w.FetchErr = nil
		for _, via := range []string{"request", "request_uri"} {
			qq := url.Values{}
			for k, v := range q {
				qq[k] = v
			}
			if via == "request" {
				qq.Set("request", obj)
			} else {
				qq.Set("request_uri", "https://client.example/c20j.jwt")
			}
			out := w.Authorize(qq, world.Consent{})
			if out.Err == nil {
				c.Inconcl("request object accepted although the key fetcher fails")
			}
			leak("authorize "+via, out.Location+" "+out.Body)
			if via == "request" {
				p := w.PAR(qq, world.Basic("c20j", "s20j"))
				leak("par "+via, p.Body)
			}
		}
	}
}

// pageShape summarises the element structure of a parsed page: how often each element other than <input> occurs, and which
// event-handler attributes exist.
func pageShape(n *html.Node) (tags map[string]int, handlers map[string]bool) {
	tags, handlers = map[string]int{}, map[string]bool{}
	var walk func(*html.Node)
	walk = func(x *html.Node) {
		if x.Type == html.ElementNode {
			if x.Data != "input" {
				tags[x.Data]++
			}
			for _, a := range x.Attr {
				if k := strings.ToLower(a.Key); strings.HasPrefix(k, "on") {
					handlers[x.Data+"@"+k] = true
				}
			}
		}
		for c := x.FirstChild; c != nil; c = c.NextSibling {
			walk(c)
		}
	}
	if n != nil {
		walk(n)
	}
	return
}

var (
	c20BaseOnce     sync.Once
	c20BaseTags     map[string]int
	c20BaseHandlers map[string]bool
)

// foreignElements compares the page with the shape the SAME template produces for harmless values (rendered once per
// process through fosite's own writer): a reflected value must not add an element or an event handler. Whatever the
// template itself contains is fine, so a change of the template is not a finding.
func foreignElements(n *html.Node) string {
	if n == nil {
		return "unparsable"
	}
	c20BaseOnce.Do(func() {
		rec := httptest.NewRecorder()
		fosite.WriteAuthorizeFormPostResponse("https://c20.example/cb", url.Values{"code": {"harmless"}, "state": {"harmless-state"}}, fosite.DefaultFormPostTemplate, rec)
		doc, _ := html.Parse(strings.NewReader(rec.Body.String()))
		c20BaseTags, c20BaseHandlers = pageShape(doc)
	})
	tags, handlers := pageShape(n)
	for t, k := range tags {
		if k > c20BaseTags[t] {
			return t
		}
	}
	for h := range handlers {
		if !c20BaseHandlers[h] {
			return h
		}
	}
	if tags["form"] != c20BaseTags["form"] {
		return fmt.Sprintf("%d forms", tags["form"])
	}
	return ""
}

func sortStrings(s []string) {
	for i := 1; i < len(s); i++ {
		for j := i; j > 0 && s[j] < s[j-1]; j-- {
			s[j], s[j-1] = s[j-1], s[j]
		}
	}
}

func parseAuthzPublic(rec *httptest.ResponseRecorder, out *world.AuthzOut) {
	world.ParseAuthz(rec, out)
}

// ---------------------------------------------------------------------------
// taint: nothing handed to storage is a usable secret in cleartext

func c20taint(c *run.Ctx) {
	c.Need("c20_storage_calls_scanned", 1)
	c.Need("c20_secrets_tracked", 1)
	n := c.N(64, 8000)
	keys := world.GetKeys()
	for i := 0; i < n; i++ {
		gi := i*c.NShards + c.Shard
		r := caseRng(c, i)
		v := variant(gi)
		w := v.build(nil)
		w.AddClient(world.ClientSpec{ID: "post-e", Kind: "oidc", Secret: "post-client-secret-e", AuthMethod: "client_secret_post", RedirectURIs: []string{"https://e.example/cb"}, GrantTypes: world.AllGrants,
			ResponseTypes: world.AllResponseTypes, Scopes: scopePool, Audience: []string{"https://api.example/e"}})
		w.AddClient(world.ClientSpec{ID: "pkj-f", Kind: "oidc", AuthMethod: "private_key_jwt", AuthSigAlg: "RS256", JWKS: world.PublicJWKS(nil, &keys.ClientRSA[0].PublicKey), RedirectURIs: []string{"https://f.example/cb"},
			GrantTypes: world.AllGrants, ResponseTypes: world.AllResponseTypes, Scopes: scopePool})
		w.AddBearerKey("iss-20", "svc-20", "bk20", &keys.ClientRSA[1].PublicKey, "RS256", []string{"fosite"})
		secrets := map[string]string{ // value -> what it is
			"secret-of-a": "client_secret", "old-secret-of-a": "client_secret(rotated)", "secret-of-b": "client_secret", "secret-of-d": "client_secret", "post-client-secret-e": "client_secret",
			world.UserPass: "user_password",
		}
		var calls []world.Call
		w.Store.Tap = func(cl world.Call) { calls = append(calls, cl) }
		// every response of this workload: an error body names an error code, never fosite's catch-all for an error it does
		// not recognise
		var unrecognisable []string
		world.RespTap = func(status int, h http.Header, body string) {
			c.Count("c20_taint_responses_scanned", 1)
			if status >= 400 && strings.HasPrefix(h.Get("Content-Type"), "application/json") {
				var m map[string]interface{}
				if json.Unmarshal([]byte(body), &m) == nil && m["error"] == "error" {
					unrecognisable = append(unrecognisable, fmt.Sprintf("status %d body %s", status, body))
				}
			}
		}
		s := sim.New(w, c, "none")
		// PKCE S256 flows (verifier is a secret), body-transported credentials, assertions, PAR with credentials in the body
		verifier := "verifier-" + fmt.Sprint(gi) + "-abcdefghijklmnopqrstuvwxyz0123456789ABCDEF"
		secrets[verifier] = "code_verifier(S256)"
		for _, cl := range []string{"conf-a", "pub-c", "post-e"} {
			g := s.Authorize(sim.AuthzReq{Client: cl, RT: pick(r, []string{"code", "code id_token", "code token"}), Scopes: []string{"openid", "offline", "fosite"},
				Extra: url.Values{"code_challenge": {s256(verifier)}, "code_challenge_method": {"S256"}, "_verifier": {verifier}}})
			if g != nil && g.Code != nil {
				secrets[g.Code.Value] = "authorization_code"
				au := authFor(w, cl)
				if cl == "post-e" {
					au = world.Post("post-e", "post-client-secret-e")
				}
				s.Redeem(g, sim.RedeemOpts{Auth: &au})
				if g.Latest != nil && r.Intn(2) == 0 {
					s.Refresh(g.Latest, "", nil)
				}
			}
		}
		s.Password("conf-a", []string{"offline", "fosite"})
		s.Password("post-e", []string{"offline"})
		s.ClientCredentials("conf-b", []string{"fosite"}, nil)
		s.DeviceGrant("conf-a", []string{"offline", "openid"})
		s.DeviceGrant("pub-c", []string{"offline"})
		// device authorization and device-code exchange with credentials carried in the body
		if dv := w.Device(url.Values{"client_id": {"post-e"}, "scope": {"offline fosite"}}, world.Post("post-e", "post-client-secret-e")); dv.Err == nil {
			_ = w.DeviceDecide(dv.S("user_code"), true, "user-dev", nil, false)
			w.Token(url.Values{"grant_type": {"urn:ietf:params:oauth:grant-type:device_code"}, "device_code": {dv.S("device_code")}}, world.Post("post-e", "post-client-secret-e"))
		}
		caDev := clientAssertionFor("pkj-f", keys.ClientRSA[0], "k0")
		secrets[caDev] = "client_assertion"
		w.Device(url.Values{"client_id": {"pkj-f"}, "scope": {"fosite"}}, world.Auth{Mode: "id_only", ID: "pkj-f", Assertion: caDev})
		ca := clientAssertionFor("pkj-f", keys.ClientRSA[0], "k0")
		secrets[ca] = "client_assertion"
		w.Token(url.Values{"grant_type": {"client_credentials"}, "scope": {"fosite"}}, world.Auth{Mode: "none", Assertion: ca})
		ba := world.SignJWT(keys.ClientRSA[1], "RS256", map[string]interface{}{"kid": "bk20"}, map[string]interface{}{"iss": "iss-20", "sub": "svc-20", "aud": []string{world.TokenURL}, "exp": time.Now().Add(time.Hour).Unix(), "iat": time.Now().Unix(), "jti": nextJTI("t20")})
		w.Token(url.Values{"grant_type": {"urn:ietf:params:oauth:grant-type:jwt-bearer"}, "assertion": {ba}, "scope": {"fosite"}}, world.Basic("conf-a", "secret-of-a"))
		// PAR with every client-authentication transport
		ca2 := clientAssertionFor("pkj-f", keys.ClientRSA[0], "k0")
		secrets[ca2] = "client_assertion"
		for _, pp := range []struct {
			client string
			au     world.Auth
		}{{"conf-a", world.Basic("conf-a", "secret-of-a")}, {"conf-b", world.Post("conf-b", "secret-of-b")}, {"post-e", world.Post("post-e", "post-client-secret-e")}, {"pkj-f", world.Auth{Mode: "id_only", ID: "pkj-f", Assertion: ca2}}} {
			sp := w.Specs[pp.client]
			p := w.PAR(url.Values{"client_id": {pp.client}, "response_type": {"code"}, "scope": {"fosite"}, "state": {"state-0123456789"}, "redirect_uri": {sp.RedirectURIs[0]},
				"code_challenge": {s256(verifier)}, "code_challenge_method": {"S256"}}, pp.au)
			if p.Err == nil {
				az := w.Authorize(url.Values{"client_id": {pp.client}, "request_uri": {p.S("request_uri")}}, world.Consent{})
				if code := az.Params.Get("code"); code != "" {
					secrets[code] = "authorization_code"
					f := url.Values{"grant_type": {"authorization_code"}, "code": {code}, "redirect_uri": {sp.RedirectURIs[0]}, "code_verifier": {verifier}}
					w.Token(f, pp.au)
				}
			}
		}
		for k := 0; k < 6; k++ {
			randStep(s, r, defaultWeights)
		}
		// revocation / introspection with body credentials
		if len(s.Toks) > 0 {
			t := pick(r, s.Toks)
			w.Revoke(url.Values{"token": {t.Value}}, world.Post("conf-b", "secret-of-b"))
			w.IntrospectHTTP(url.Values{"token": {t.Value}}, world.Basic("conf-a", "secret-of-a"), "")
		}
		w.Store.Tap = nil
		world.RespTap = nil
		for _, u := range unrecognisable {
			c.Violate(run.Violation{Kind: "error-code-not-rfc", Key: "error-code-not-rfc taint workload", Detail: "an error response names no error code of the protocol but the catch-all \"error\": " + u, History: s.Hist})
		}
		for _, t := range s.Toks {
			secrets[t.Value] = t.Kind + "_token"
		}
		for _, g := range s.Grants {
			if g.Code != nil {
				secrets[g.Code.Value] = "authorization_code"
			}
		}
		c.Count("c20_secrets_tracked", int64(len(secrets)))
		c.Count("c20_storage_calls_scanned", int64(len(calls)))
		c.Eval(int64(len(calls)))
		for _, cl := range calls {
			if cl.Method == "Authenticate" {
				continue // the resource-owner credential check itself has to see the password
			}
			c.Distinct["storage-call "+cl.Method]++
			hit := func(where, val string) {
				for sec, what := range secrets {
					if sec != "" && strings.Contains(val, sec) {
						c.Violate(run.Violation{Kind: "secret-in-storage", Key: fmt.Sprintf("secret-in-storage %s %s via %s", what, where, cl.Method), Case: fmt.Sprintf("case-%d", gi),
							Detail: fmt.Sprintf("storage call %s received the %s in cleartext (%s)", cl.Method, what, where), History: s.Hist})
					}
				}
			}
			for _, k := range cl.Keys {
				hit("as key/argument", k)
			}
			for name, vs := range cl.Form {
				for _, v := range vs {
					hit("in stored form field "+name, v)
				}
			}
		}
		if i == 0 {
			c.Sample(map[string]interface{}{"world": v.String(), "storage_calls": len(calls), "secrets_tracked": len(secrets), "history_prefix": s.Hist[:min(15, len(s.Hist))]})
		}
	}
}

// htmlText is what an HTML parser makes of a string inside an attribute value: NUL becomes U+FFFD, CR LF and CR become LF (input stream preprocessing).
func htmlText(s string) string {
	s = strings.ReplaceAll(strings.ReplaceAll(s, "\r\n", "\n"), "\r", "\n")
	return strings.ReplaceAll(s, "\x00", "\uFFFD")
}
