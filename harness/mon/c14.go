package mon

import (
	"crypto/sha256"
	"crypto/sha512"
	"fmt"
	"hash"
	"net/url"
	"strings"
	"time"

	"github.com/go-jose/go-jose/v3"

	"github.com/ory/fosite"

	"fverif/run"
	"fverif/world"
)

func init() { Registry["C14"] = C14 }

type c14Key struct {
	Name string
	Key  interface{} // private key handed to the signer
	Pub  interface{}
	Alg  string
}

func c14Keys() []c14Key {
	k := world.GetKeys()
	mk := func(curve, alg string) c14Key {
		return c14Key{Name: alg, Key: &jose.JSONWebKey{Key: k.ServerEC[curve], Algorithm: alg, KeyID: "ec-" + curve, Use: "sig"}, Pub: &k.ServerEC[curve].PublicKey, Alg: alg}
	}
	// the server's RSA key used with another algorithm of the RSA family (the JWK names it): RSASSA-PSS and the longer PKCS#1 hashes
	rsa := func(alg string) c14Key {
		return c14Key{Name: alg, Key: &jose.JSONWebKey{Key: k.ServerRSA, Algorithm: alg, KeyID: "rsa-" + alg, Use: "sig"}, Pub: &k.ServerRSA.PublicKey, Alg: alg}
	}
	return []c14Key{{Name: "RS256", Key: k.ServerRSA, Pub: &k.ServerRSA.PublicKey, Alg: "RS256"}, mk("P-256", "ES256"), mk("P-384", "ES384"), mk("P-521", "ES512"),
		rsa("PS384"), rsa("PS512"), rsa("RS512"), rsa("PS256")}
}

func leftHalfHash(alg, v string) string {
	var h hash.Hash = sha256.New()
	switch {
	case strings.HasSuffix(alg, "384"):
		h = sha512.New384()
	case strings.HasSuffix(alg, "512"):
		h = sha512.New()
	}
	h.Write([]byte(v))
	s := h.Sum(nil)
	return b64u.EncodeToString(s[:len(s)/2])
}

type c14Ctx struct {
	c        *run.Ctx
	key      c14Key
	client   string
	subject  string
	nonce    string
	life     time.Duration
	preset   time.Time
	extraAud []string
	hist     []string
	caseID   string
}

// checkIDToken verifies one ID token against the artefacts of the same response.
func (x *c14Ctx) checkIDToken(where, tok, accessToken, code string, refresh bool) {
	c := x.c
	c.Count("c14_id_tokens_checked", 1)
	viol := func(kind, detail string) {
		c.Violate(run.Violation{Kind: kind, Key: kind + " " + where + " key=" + x.key.Name, Case: x.caseID, Detail: detail + " | id_token=" + tok, History: x.hist})
	}
	jws, err := jose.ParseSigned(tok)
	if err != nil {
		viol("id-token-malformed", err.Error())
		return
	}
	if _, err := jws.Verify(x.key.Pub); err != nil {
		viol("id-token-signature", "does not verify under the server's public key: "+err.Error())
		return
	}
	hdr, cl, ok := world.DecodeJWT(tok)
	if !ok {
		viol("id-token-malformed", "cannot decode")
		return
	}
	alg := fmt.Sprint(hdr["alg"])
	if alg != x.key.Alg {
		viol("id-token-alg", fmt.Sprintf("header alg %s, key alg %s", alg, x.key.Alg))
	}
	var aud []string
	switch a := cl["aud"].(type) {
	case string:
		aud = []string{a}
	case []interface{}:
		for _, e := range a {
			aud = append(aud, fmt.Sprint(e))
		}
	}
	if !has(aud, x.client) {
		viol("id-token-aud", fmt.Sprintf("aud %v does not name the requesting client %s", aud, x.client))
	}
	if fmt.Sprint(cl["sub"]) != x.subject {
		viol("id-token-sub", fmt.Sprintf("sub %v != session subject %s", cl["sub"], x.subject))
	}
	if fmt.Sprint(cl["iss"]) != world.Issuer {
		viol("id-token-iss", fmt.Sprintf("iss %v != %s", cl["iss"], world.Issuer))
	}
	if n, present := cl["nonce"]; present {
		if fmt.Sprint(n) != x.nonce {
			viol("id-token-nonce", fmt.Sprintf("nonce %v != request nonce %q", n, x.nonce))
		}
	} else if x.nonce != "" && !refresh {
		viol("id-token-nonce", "nonce missing although the request carried "+x.nonce)
	}
	now := time.Now()
	exp, _ := cl["exp"].(float64)
	switch {
	case int64(exp) <= now.Unix():
		viol("id-token-exp", fmt.Sprintf("exp %d is not in the future (now %d)", int64(exp), now.Unix()))
	case !x.preset.IsZero() && !refresh:
		if int64(exp) != x.preset.Unix() {
			viol("id-token-exp", fmt.Sprintf("exp %d differs from the expiry pre-set by the session %d", int64(exp), x.preset.Unix()))
		}
	case x.preset.IsZero() && int64(exp) > now.Add(x.life).Unix():
		viol("id-token-exp", fmt.Sprintf("exp %d is beyond now+configured lifetime %d", int64(exp), now.Add(x.life).Unix()))
	}
	ath, hasAth := cl["at_hash"]
	if accessToken != "" {
		if !hasAth || fmt.Sprint(ath) != leftHalfHash(alg, accessToken) {
			viol("id-token-at_hash", fmt.Sprintf("at_hash %v != left half of %s hash of the access token delivered in the same response (%s)", ath, alg, leftHalfHash(alg, accessToken)))
		}
	} else if hasAth && fmt.Sprint(ath) != "" {
		viol("id-token-at_hash", fmt.Sprintf("at_hash %v present although no access token was delivered in this response", ath))
	}
	ch, hasCh := cl["c_hash"]
	if code != "" {
		if !hasCh || fmt.Sprint(ch) != leftHalfHash(alg, code) {
			viol("id-token-c_hash", fmt.Sprintf("c_hash %v != left half hash of the code delivered in the same response (%s)", ch, leftHalfHash(alg, code)))
		}
	} else if refresh && hasCh && fmt.Sprint(ch) != "" {
		viol("id-token-c_hash", fmt.Sprintf("ID token minted on refresh carries c_hash %v", ch))
	}
}

// c14Lifespans: per-client ID-token lifetimes. Every ID token expires within the lifetime configured for the grant that
// minted it (implicit / hybrid at the authorization endpoint, authorization_code at the code exchange, refresh_token on
// refresh), whatever was minted earlier for the same authorization, on the reference store and on a copying one.
func c14Lifespans(c *run.Ctx) {
	if !c.Mine(7) && c.NShards > 7 {
		return
	}
	d := func(x time.Duration) *time.Duration { return &x }
	lives := map[string]time.Duration{"authorize": 2 * time.Hour, "authorization_code": 10 * time.Minute, "refresh_token": 5 * time.Minute}
	for _, db := range []bool{false, true} {
		for _, rt := range []string{"code", "code id_token", "code id_token token", "code token"} {
			for _, wait := range []time.Duration{0, 3 * time.Minute} {
				w := world.New(world.Opts{Mode: world.Mode{DB: db}})
				ls := &fosite.ClientLifespanConfig{ImplicitGrantIDTokenLifespan: d(lives["authorize"]), AuthorizationCodeGrantIDTokenLifespan: d(lives["authorization_code"]),
					RefreshTokenGrantIDTokenLifespan: d(lives["refresh_token"])}
				w.AddClient(world.ClientSpec{ID: "lsx", Kind: "lifespan", Secret: "slsx", RedirectURIs: []string{"https://lsx.example/cb"}, GrantTypes: world.AllGrants, ResponseTypes: world.AllResponseTypes,
					Scopes: []string{"openid", "offline", "fosite"}, Lifespans: ls})
				a := world.Basic("lsx", "slsx")
				var hist []string
				judge := func(where, grant, tok string) {
					if tok == "" {
						return
					}
					_, cl, okj := world.DecodeJWT(tok)
					expF, ok := cl["exp"].(float64)
					if !okj || !ok {
						return
					}
					life := time.Unix(int64(expF), 0).Sub(time.Now())
					hist = append(hist, fmt.Sprintf("%s: ID token expires in %s (configured for %s: %s)", where, life, grant, lives[grant]))
					c.Case(fmt.Sprintf("id-token-lifespan store-copying=%v rt=%q %s within=%v", db, rt, where, life <= lives[grant]))
					c.Count("c14_lifespan_tokens_checked", 1)
					if life > lives[grant] || life <= 0 {
						c.Violate(run.Violation{Kind: "id-token-exp", Key: fmt.Sprintf("id-token-exp per-client-lifespan %s rt=%s", where, setKey(rt)),
							Detail: fmt.Sprintf("the ID token minted at %s lives %s, the client's lifetime for %s ID tokens is %s", where, life, grant, lives[grant]), History: append([]string(nil), hist...)})
					}
				}
				az := w.Authorize(url.Values{"client_id": {"lsx"}, "response_type": {rt}, "scope": {"openid offline"}, "state": {"state-0123456789"}, "nonce": {"nonce-0123456789"}, "redirect_uri": {"https://lsx.example/cb"}}, world.Consent{})
				if az.Err != nil {
					continue
				}
				judge("authorization-endpoint", "authorize", az.Params.Get("id_token"))
				if wait > 0 {
					world.Sleep(wait)
					hist = append(hist, wait.String()+" pass")
				}
				out := w.Token(url.Values{"grant_type": {"authorization_code"}, "code": {az.Params.Get("code")}, "redirect_uri": {"https://lsx.example/cb"}}, a)
				if out.Err != nil {
					c.Count("c14_lifespan_code_exchange_refused", 1)
					continue
				}
				judge("code-exchange", "authorization_code", out.S("id_token"))
				if rtok := out.S("refresh_token"); rtok != "" {
					rf := w.Token(url.Values{"grant_type": {"refresh_token"}, "refresh_token": {rtok}}, a)
					if rf.Err == nil {
						judge("refresh", "refresh_token", rf.S("id_token"))
					}
				}
			}
		}
	}
}

func C14(c *run.Ctx) {
	c14Lifespans(c)
	c.Need("c14_id_tokens_checked", 1)
	c.Need("c14_unsatisfied_refused", 1)
	keys := c14Keys()
	rts := []string{"code", "id_token", "id_token token", "code id_token", "code token", "code id_token token", "device"}
	type sessVar struct {
		name string
		// relation of auth_time to requested_at, in seconds (auth - requested); zeroAuth: no auth_time
		authOff  int
		subMs    int // additional sub-second offset of auth_time, milliseconds
		zeroAuth bool
		emptySub bool
		preset   time.Duration // pre-set expiry (from now), 0 none
		extraAud bool
		custom   bool
		reserved bool // the custom claims include names of registered ID-token claims (forwarded from an upstream provider)
	}
	svs := []sessVar{{name: "plain"}, {name: "auth-100s-before", authOff: -100}, {name: "auth-100s-after", authOff: 100}, {name: "no-auth-time", zeroAuth: true},
		{name: "auth-500ms-before", subMs: -500}, {name: "auth-500ms-after", subMs: 500}, {name: "auth-50.5s-before", authOff: -50, subMs: -500},
		{name: "empty-subject", emptySub: true}, {name: "preset-expiry-10m", preset: 10 * time.Minute}, {name: "preset-audience", extraAud: true}, {name: "custom-claims", custom: true}, {name: "custom-claims-with-reserved-names", custom: true, reserved: true}}
	type reqVar struct {
		name   string
		params url.Values
		// satisfied decides from the session variant whether the request's OIDC constraints are met; -1 unspecified
		satisfied func(s sessVar) int
	}
	off := func(s sessVar) int { return s.authOff*1000 + s.subMs } // auth_time - requested_at, milliseconds
	b2i := func(b bool) int {
		if b {
			return 1
		}
		return 0
	}
	rvs := []reqVar{
		{"none", url.Values{}, func(s sessVar) int { return 1 }},
		{"max_age=50", url.Values{"max_age": {"50"}}, func(s sessVar) int {
			if s.zeroAuth {
				return 0
			}
			return b2i(off(s)+50000 >= 0)
		}},
		// the same constraint carried as a JSON NUMBER inside an OpenID Connect request object (the natural spelling there)
		{"max_age=50 (number, in a request object)", url.Values{"request": {"REQOBJ-MAXAGE-50"}}, func(s sessVar) int {
			if s.zeroAuth {
				return 0
			}
			return b2i(off(s)+50000 >= 0)
		}},
		{"max_age=1000", url.Values{"max_age": {"1000"}}, func(s sessVar) int {
			if s.zeroAuth {
				return 0
			}
			return 1
		}},
		{"prompt=none", url.Values{"prompt": {"none"}}, func(s sessVar) int {
			if s.zeroAuth {
				return 0
			}
			return b2i(off(s) <= 0)
		}},
		{"prompt=login", url.Values{"prompt": {"login"}}, func(s sessVar) int {
			if s.zeroAuth {
				return 0
			}
			return b2i(off(s) >= 0)
		}},
		{"prompt=login+consent", url.Values{"prompt": {"login consent"}}, func(s sessVar) int {
			if s.zeroAuth {
				return 0
			}
			return b2i(off(s) >= 0)
		}},
		{"prompt=select_account+login", url.Values{"prompt": {"select_account login"}}, func(s sessVar) int {
			if s.zeroAuth {
				return 0
			}
			return b2i(off(s) >= 0)
		}},
		{"prompt=none+login", url.Values{"prompt": {"none login"}}, func(s sessVar) int { return 0 }},
		{"prompt=unknown", url.Values{"prompt": {"sudo"}}, func(s sessVar) int { return 0 }},
		{"id_token_hint=own", url.Values{"id_token_hint": {"OWN"}}, func(s sessVar) int { return 1 }},
		{"id_token_hint=own-expired", url.Values{"id_token_hint": {"OWNEXPIRED"}}, func(s sessVar) int { return 1 }},
		{"id_token_hint=other-subject", url.Values{"id_token_hint": {"OTHER"}}, func(s sessVar) int { return 0 }},
		{"id_token_hint=garbage", url.Values{"id_token_hint": {"garbage.garbage.garbage"}}, func(s sessVar) int { return 0 }},
		{"id_token_hint=foreign-signer", url.Values{"id_token_hint": {"FOREIGN"}}, func(s sessVar) int { return 0 }},
		{"no-nonce", url.Values{"nonce": {""}}, func(s sessVar) int { return 1 }},
		{"no-openid", url.Values{"scope": {"fosite offline"}}, func(s sessVar) int { return 1 }},
	}
	idx := 0
	stride := uint64(1)
	if c.Quick() {
		stride = 6
	} else {
		c.Exhaustive = true
	}
	for ki, key := range keys {
		for _, jwtAT := range []bool{false, true} {
			w := world.New(world.Opts{IDKey: key.Key, JWTAccess: jwtAT, Mode: world.Mode{DB: ki%2 == 1, Hydrate: jwtAT}, Cfg: func(cfg *fosite.Config) { cfg.IDTokenLifespan = 30 * time.Minute }})
			w.IDAlg = key.Alg
			ck := world.GetKeys()
			w.AddClient(world.ClientSpec{ID: "ro14", Kind: "oidc", Secret: "s-ro14", AuthMethod: "client_secret_basic", ReqObjAlg: "RS256",
				JWKS:         &jose.JSONWebKeySet{Keys: []jose.JSONWebKey{{Key: &ck.ClientRSA[0].PublicKey, KeyID: "k0", Algorithm: "RS256", Use: "sig"}}},
				RedirectURIs: []string{"https://ro14.example/cb"}, GrantTypes: world.AllGrants, ResponseTypes: world.AllResponseTypes, Scopes: []string{"openid", "fosite", "offline"}})
			life := 30 * time.Minute
			// id token hints
			hintFor := func(sub string, exp time.Time, k interface{}, alg string) string {
				return world.SignJWT(k, alg, nil, map[string]interface{}{"sub": sub, "iss": world.Issuer, "aud": []string{"conf-a"}, "exp": exp.Unix(), "iat": time.Now().Add(-time.Hour).Unix()})
			}
			rawKey := key.Key
			if j, ok := rawKey.(*jose.JSONWebKey); ok {
				rawKey = j.Key
			}
			for _, rt := range rts {
				for _, sv := range svs {
					for _, rv := range rvs {
						idx++
						if !c.Mine(idx) || (stride > 1 && mix(uint64(idx), uint64(c.Seed))%stride != 0) {
							continue
						}
						client := []string{"conf-a", "pub-c", "rich-d"}[idx%3]
						if rt == "device" && client == "rich-d" {
							client = "conf-a"
						}
						sp := w.Specs[client]
						subject := "user-14"
						if sv.emptySub {
							subject = ""
						}
						nonce := "nonce-" + fmt.Sprint(idx) + "-0123456789"
						q := url.Values{"client_id": {client}, "response_type": {rt}, "scope": {"openid fosite offline"}, "state": {"state-0123456789"}, "nonce": {nonce}, "redirect_uri": {sp.RedirectURIs[0]}}
						for k, v := range rv.params {
							q[k] = v
						}
						if q.Get("nonce") == "" {
							q.Del("nonce")
							nonce = ""
						}
						if q.Get("request") == "REQOBJ-MAXAGE-50" {
							if rt == "device" {
								continue // the device authorization endpoint takes no request objects
							}
							// ro14 registers a key and RS256 for its request objects
							client, sp = "ro14", w.Specs["ro14"]
							q.Set("client_id", client)
							q.Set("redirect_uri", sp.RedirectURIs[0])
							q.Set("request", world.SignJWT(ck.ClientRSA[0], "RS256", map[string]interface{}{"kid": "k0"}, map[string]interface{}{"iss": client, "aud": world.Issuer, "client_id": client, "max_age": 50}))
						}
						switch q.Get("id_token_hint") {
						case "OWN":
							q.Set("id_token_hint", hintFor("user-14", time.Now().Add(time.Hour), rawKey, key.Alg))
						case "OWNEXPIRED":
							q.Set("id_token_hint", hintFor("user-14", time.Now().Add(-time.Minute), rawKey, key.Alg))
						case "OTHER":
							q.Set("id_token_hint", hintFor("someone-else", time.Now().Add(time.Hour), rawKey, key.Alg))
						case "FOREIGN":
							q.Set("id_token_hint", hintFor("user-14", time.Now().Add(time.Hour), world.GetKeys().ClientRSA[0], "RS256"))
						}
						openid := strings.Contains(q.Get("scope"), "openid")
						x := &c14Ctx{c: c, key: key, client: client, subject: subject, nonce: nonce, life: life, caseID: fmt.Sprint(idx)}
						sessMut := func(s *world.Sess) {
							now := time.Now().UTC()
							s.Claims.RequestedAt = now
							s.Claims.AuthTime = now.Add(time.Duration(sv.authOff)*time.Second + time.Duration(sv.subMs)*time.Millisecond)
							if sv.zeroAuth {
								s.Claims.AuthTime = time.Time{}
							}
							if sv.preset > 0 {
								s.Claims.ExpiresAt = now.Add(sv.preset)
								x.preset = s.Claims.ExpiresAt
							}
							if sv.extraAud {
								s.Claims.Audience = []string{"https://api.example/pre-set"}
							}
							if sv.custom {
								s.Claims.Extra = map[string]interface{}{"email": "u@example.com", "aud_hint": "x", "sub_alias": "zzz"}
								if sv.reserved {
									for k, v := range map[string]interface{}{"nonce": "upstream-nonce", "at_hash": "upstream-at-hash", "c_hash": "upstream-c-hash", "iss": "https://upstream.example", "acr": "9", "rat": 12345} {
										s.Claims.Extra[k] = v
									}
								}
							}
						}
						want := rv.satisfied(sv)
						if sv.emptySub {
							want = 0
						}
						if sv.authOff > 5 {
							// auth_time more than 5s in the future of the request is refused by the library regardless ("in the future"): unspecified for our clauses
							if want == 1 {
								want = -1
							}
						}
						x.hist = []string{fmt.Sprintf("key=%s jwt-access=%v client=%s rt=%q session=%s request=%s", key.Name, jwtAT, client, rt, sv.name, rv.name)}
						got := 0 // ID tokens that reached the client
						var idTokens []string
						if rt == "device" {
							dv := w.Device(url.Values{"client_id": {client}, "scope": {q.Get("scope")}}, authFor(w, client))
							if dv.Err != nil {
								continue
							}
							if err := w.DeviceDecide(dv.S("user_code"), true, subject, nil, true, sessMut); err != nil {
								continue
							}
							x.nonce = ""
							out := w.Token(url.Values{"grant_type": {"urn:ietf:params:oauth:grant-type:device_code"}, "device_code": {dv.S("device_code")}}, authFor(w, client))
							x.hist = append(x.hist, "device poll: "+world.ErrDetail(out.Err))
							if it := out.S("id_token"); it != "" {
								got++
								idTokens = append(idTokens, it)
								x.checkIDToken("device-token-endpoint", it, out.S("access_token"), "", false)
							}
							c14Refresh(x, w, out, client)
							if rv.name != "none" && rv.name != "no-openid" {
								want = -1 // the authorization-request parameters do not exist in the device flow
							}
						} else {
							az := w.Authorize(q, world.Consent{Subject: subject, EmptySubject: sv.emptySub, SessMut: sessMut})
							x.hist = append(x.hist, "authorize: "+az.Kind+" "+world.ErrDetail(az.Err))
							code, at, it := az.Params.Get("code"), az.Params.Get("access_token"), az.Params.Get("id_token")
							if it != "" {
								got++
								idTokens = append(idTokens, it)
								x.checkIDToken("authorization-endpoint rt="+setKey(rt), it, at, code, false)
							}
							if code != "" {
								out := w.Token(url.Values{"grant_type": {"authorization_code"}, "code": {code}, "redirect_uri": {sp.RedirectURIs[0]}}, authFor(w, client))
								x.hist = append(x.hist, "redeem: "+world.ErrDetail(out.Err))
								if it2 := out.S("id_token"); it2 != "" {
									got++
									idTokens = append(idTokens, it2)
									saved := x.preset
									if strings.Contains(rt, " ") {
										// hybrid: the ID token of the token endpoint may inherit the expiry computed at the authorization endpoint
										x.preset = time.Time{}
									}
									x.checkIDToken("token-endpoint rt="+setKey(rt), it2, out.S("access_token"), "", false)
									x.preset = saved
								}
								c14Refresh(x, w, out, client)
							}
						}
						c.Case(fmt.Sprintf("rt=%q session=%s request=%s openid=%v want=%d id_tokens=%d key=%s", rt, sv.name, rv.name, openid, want, got, key.Name))
						c.DisjointN++
						if !openid && got > 0 {
							c.Violate(run.Violation{Kind: "id-token-without-openid", Key: "id-token-without-openid rt=" + setKey(rt), Case: x.caseID, Detail: "an ID token was issued although the grant does not include openid", History: x.hist})
						}
						switch want {
						case -1:
							c.Unspecified("oidc-constraint-undetermined")
						case 0:
							c.Count("c14_unsatisfied_refused", 1)
							if got > 0 {
								why := rv.name
								if sv.emptySub {
									why = "empty-subject"
								}
								c.Violate(run.Violation{Kind: "id-token-despite-unsatisfied-constraint", Key: "id-token-despite-unsatisfied-constraint " + why + " session=" + sv.name + " rt=" + setKey(rt), Case: x.caseID,
									Detail: fmt.Sprintf("%d ID token(s) issued although %s is not satisfied by session %s", got, why, sv.name), History: x.hist})
							}
						case 1:
							if got > 0 {
								c.Count("c14_satisfied_issued", 1)
							}
						}
						if idx%97 == 0 && got > 0 {
							c.Sample(map[string]interface{}{"case": x.hist[0], "id_token_example": idTokens[0]})
						}
					}
				}
			}
			_ = ki
		}
	}
}

func authFor(w *world.World, client string) world.Auth {
	sp := w.Specs[client]
	if sp.Public {
		return world.Public(client)
	}
	return world.Basic(client, sp.Secret)
}

// c14Refresh follows the refresh chain of a token response and checks the ID tokens minted on refresh.
func c14Refresh(x *c14Ctx, w *world.World, out *world.Out, client string) {
	rt := out.S("refresh_token")
	for depth := 0; depth < 2 && rt != ""; depth++ {
		world.Sleep(time.Duration(1+depth) * time.Second)
		o := w.Token(url.Values{"grant_type": {"refresh_token"}, "refresh_token": {rt}}, authFor(w, client))
		x.hist = append(x.hist, fmt.Sprintf("refresh %d: %s", depth, world.ErrDetail(o.Err)))
		if o.Err != nil {
			return
		}
		if it := o.S("id_token"); it != "" {
			x.checkIDToken("refresh", it, o.S("access_token"), "", true)
			x.c.Count("c14_refresh_id_tokens", 1)
		}
		rt = o.S("refresh_token")
	}
}
