package mon

import (
	"context"
	crand "crypto/rand"
	"crypto/sha256"
	"encoding/hex"
	"encoding/json"
	"fmt"
	"net/url"
	"sort"
	"strings"
	"time"

	"github.com/ory/fosite"
	"github.com/ory/fosite/handler/oauth2"

	"fverif/run"
	"fverif/sim"
	"fverif/world"
)

func init() { Registry["C09http"] = c09http }

// mutateTok returns credentials derived from a minted one that the server never issued.
func mutateTok(v string, n int) string {
	if len(v) < 8 {
		return v + "x"
	}
	b := []byte(v)
	switch n % 4 {
	case 0: // flip a character in the last part
		i := len(b) - 3
		if b[i] == 'A' {
			b[i] = 'B'
		} else {
			b[i] = 'A'
		}
	case 1: // flip a character right after the prefix / in the first part
		i := 9
		if i >= len(b) {
			i = len(b) / 2
		}
		if b[i] == 'A' {
			b[i] = 'B'
		} else {
			b[i] = 'A'
		}
	case 2: // truncate
		b = b[:len(b)-2]
	case 3: // swap prefix
		s := string(b)
		if strings.HasPrefix(s, "ory_at_") {
			return "ory_rt_" + s[7:] + "0"
		}
		if strings.HasPrefix(s, "ory_rt_") {
			return "ory_at_" + s[7:] + "0"
		}
		return s + "0"
	}
	return string(b)
}

// c09http: the HTTP face of introspection: caller authentication, hints,
// required scopes, payload truthfulness, for every token of a history and mutants.
func c09http(c *run.Ctx) {
	c09LeanSession(c)
	c09ReservedExtras(c)
	c09TwoIntrospectors(c)
	c09IntegratorStrategy(c)
	n := c.N(48, 4000)
	c.Need("http_active_true", 1)
	c.Need("http_caller_refused", 1)
	for i := 0; i < n; i++ {
		id := fmt.Sprintf("s%d-h%d", c.Shard, i)
		if c.Only != "" && c.Only != id {
			continue
		}
		r := caseRng(c, i)
		v := variant(i*c.NShards + c.Shard)
		disableRT := i%3 == 2
		w := v.build(func(cfg *fosite.Config) { cfg.DisableRefreshTokenValidation = disableRT })
		s := sim.New(w, c, "none")
		s.CaseID = id
		steps := 15 + r.Intn(30)
		for step := 0; step < steps; step++ {
			randStep(s, r, defaultWeights)
		}
		// a helper grant whose access token serves as bearer credential
		helper := s.ClientCredentials("conf-a", []string{"fosite"}, nil)
		if helper == nil {
			c.Inconcl("helper grant failed")
			continue
		}
		bearerOK := helper.LatestA.Value
		var deadAT, someRT string
		for _, t := range s.Toks {
			if vv, _ := s.Expect(t); vv == sim.MustInactive && t.Kind == "access" && deadAT == "" && t.Dead != "" && !t.Implicit {
				deadAT = t.Value
			}
			if vv, _ := s.Expect(t); vv == sim.MustActive && t.Kind == "refresh" && someRT == "" {
				someRT = t.Value
			}
		}
		type caller struct {
			name   string
			auth   world.Auth
			bearer string
			ok     int // 1 must be answered, 0 must be refused, -1 unspecified
		}
		callers := []caller{
			{"basic-valid", world.Basic("conf-b", "secret-of-b"), "", 1},
			{"basic-rotated-secret", world.Basic("conf-a", "old-secret-of-a"), "", 1},
			{"basic-wrong-secret", world.Basic("conf-b", "nope"), "", 0},
			{"basic-unknown-client", world.Basic("ghost", "secret-of-b"), "", 0},
			{"basic-other-clients-secret", world.Basic("conf-b", "secret-of-a"), "", 0},
			{"basic-public-client", world.Basic("pub-c", ""), "", -1},
			{"basic-public-client-with-a-made-up-secret", world.Basic("pub-c", "anything-at-all"), "", 0},
			{"post-credentials-only", world.Post("conf-b", "secret-of-b"), "", -1},
			{"none", world.Auth{Mode: "none"}, "", 0},
			{"bearer-active", world.Auth{}, bearerOK, 1},
			{"bearer-garbage", world.Auth{}, "ory_at_garbage.garbage", 0},
		}
		if deadAT != "" {
			callers = append(callers, caller{"bearer-dead-access-token", world.Auth{}, deadAT, 0})
		}
		if someRT != "" {
			callers = append(callers, caller{"bearer-refresh-token", world.Auth{}, someRT, 0})
		}
		toks := s.Toks
		for ti, t := range toks {
			if t == helper.LatestA {
				continue
			}
			exp, why := s.Expect(t)
			if disableRT && t.Kind == "refresh" && exp != sim.Unspec {
				exp, why = sim.MustInactive, "refresh-validation-disabled"
			}
			g := t.Grant
			scopeLists := [][]string{nil}
			if len(g.Scopes) > 0 {
				scopeLists = append(scopeLists, []string{g.Scopes[0]}, g.Scopes, append([]string{"not-granted-scope"}, g.Scopes[0]))
			} else {
				scopeLists = append(scopeLists, []string{"not-granted-scope"})
			}
			tokCallers := callers
			if t.Kind == "access" {
				// the inspected token itself as bearer credential: never answered
				tokCallers = append(append([]caller(nil), callers...), caller{"bearer-is-the-inspected-token", world.Auth{}, t.Value, 0})
				if alt := respellKeyPart(t.Value); alt != t.Value {
					// the same token again: the last character of the random part has two bits that carry no data, and the decoder
					// ignores them, so this string decodes to the same bytes and has the same signature
					tokCallers = append(tokCallers, caller{"bearer-is-the-inspected-token-respelled-in-its-spare-bits", world.Auth{}, alt, 0})
				}
				if bare := strings.TrimPrefix(t.Value, "ory_at_"); bare != t.Value {
					// the same token in its other accepted spelling (opaque tokens are honoured with and without their prefix)
					tokCallers = append(tokCallers, caller{"bearer-is-the-inspected-token-spelled-without-prefix", world.Auth{}, bare, 0})
				}
			}
			for ci, cl := range tokCallers {
				// full cross product for a few tokens, a diagonal for the rest
				if ti > 3 && (ci+ti)%3 != 0 && cl.ok == 1 {
					continue
				}
				for hi, hint := range []string{"", "access_token", "refresh_token", "bogus"} {
					for si, sl := range scopeLists {
						if ti > 3 && (hi+si+ti)%4 != 0 {
							continue
						}
						form := url.Values{"token": {t.Value}}
						if hint != "" {
							form.Set("token_type_hint", hint)
						}
						if sl != nil {
							form.Set("scope", strings.Join(sl, " "))
						}
						out := w.IntrospectHTTP(form, cl.auth, cl.bearer)
						covered := true
						for _, x := range sl {
							if !has(g.Scopes, x) {
								covered = false
							}
						}
						active, _ := out.JSON["active"].(bool)
						st := "live"
						if exp == sim.MustInactive {
							st = "dead:" + why
						} else if exp == sim.Unspec {
							st = "unspec"
						}
						c.Case(fmt.Sprintf("http caller=%s kind=%s state=%s hint=%s covered=%v active=%v status=%d", cl.name, t.Kind, st, hintName(hint, t.Kind), covered, active, out.Status))
						key := fmt.Sprintf("caller=%s kind=%s", cl.name, originOf(t))
						hist := func() []string {
							return append(append([]string(nil), s.Hist...), fmt.Sprintf("introspect %s caller=%s hint=%q scope=%v", t.Name(), cl.name, hint, sl))
						}
						switch cl.ok {
						case 0:
							c.Count("http_caller_refused", 1)
							if out.Err == nil || active || len(out.JSON) > 3 && out.JSON["client_id"] != nil {
								c.Violate(run.Violation{Kind: "unauthenticated-caller-answered", Key: "unauthenticated-caller-answered " + cl.name, Case: id,
									Detail: fmt.Sprintf("caller %s got status %d body %s", cl.name, out.Status, out.Body), History: hist()})
							}
							continue
						case -1:
							c.Unspecified("caller-" + cl.name)
							if out.Err != nil && out.ErrName != "token_inactive" {
								continue
							}
						case 1:
							if out.Err != nil && out.ErrName != "token_inactive" {
								c.Violate(run.Violation{Kind: "authenticated-caller-refused", Key: "authenticated-caller-refused " + cl.name, Case: id,
									Detail: fmt.Sprintf("caller %s refused: %s", cl.name, world.ErrDetail(out.Err)), History: hist()})
								continue
							}
						}
						want := exp
						if want == sim.MustActive && !covered {
							want = sim.MustInactive
						}
						switch {
						case want == sim.Unspec:
							c.Unspecified(why)
						case want == sim.MustActive && !active:
							c.Violate(run.Violation{Kind: "http-inactive-but-live", Key: "http-inactive-but-live " + key, Case: id,
								Detail: fmt.Sprintf("token %s is live and scopes %v are covered by %v but the endpoint says inactive (%s)", t.Name(), sl, g.Scopes, world.ErrDetail(out.Err)), History: hist()})
						case want == sim.MustInactive && active:
							c.Violate(run.Violation{Kind: "http-active-but-dead", Key: fmt.Sprintf("http-active-but-dead %s why=%s covered=%v", key, why, covered), Case: id,
								Detail: fmt.Sprintf("token %s must be inactive (%s, scopes covered=%v) but body is %s", t.Name(), why, covered, out.Body), History: hist()})
						}
						if !active {
							// nothing but active=false
							var m map[string]interface{}
							if err := json.Unmarshal([]byte(out.Body), &m); err != nil || len(m) != 1 || m["active"] != false {
								c.Violate(run.Violation{Kind: "inactive-response-leaks", Key: "inactive-response-leaks", Case: id,
									Detail: "inactive response body: " + out.Body, History: hist()})
							}
							continue
						}
						c.Count("http_active_true", 1)
						if want != sim.MustActive {
							continue
						}
						// payload truthfulness
						var bad []string
						if out.S("client_id") != g.Client {
							bad = append(bad, "client_id="+out.S("client_id"))
						}
						gotScopes := strings.Fields(out.S("scope"))
						a, b := append([]string(nil), gotScopes...), append([]string(nil), g.Scopes...)
						sort.Strings(a)
						sort.Strings(b)
						if strings.Join(a, " ") != strings.Join(b, " ") {
							bad = append(bad, fmt.Sprintf("scope=%v want %v", gotScopes, g.Scopes))
						}
						if g.Subject != "*" && out.S("sub") != g.Subject {
							bad = append(bad, "sub="+out.S("sub"))
						}
						var auds []string
						if l, ok := out.JSON["aud"].([]interface{}); ok {
							for _, x := range l {
								auds = append(auds, fmt.Sprint(x))
							}
						}
						sort.Strings(auds)
						wa := append([]string(nil), g.Aud...)
						sort.Strings(wa)
						if strings.Join(auds, " ") != strings.Join(wa, " ") {
							bad = append(bad, fmt.Sprintf("aud=%v want %v", auds, g.Aud))
						}
						// the kind is reported through the responder (the JSON body carries no token_use)
						if out.Intro == nil || string(out.Intro.GetTokenUse()) != t.Kind+"_token" {
							bad = append(bad, fmt.Sprintf("token_use=%v", out.Intro))
						}
						if t.Kind == "access" {
							if out.Intro != nil && !strings.EqualFold(out.Intro.GetAccessTokenType(), "bearer") {
								bad = append(bad, "token_type="+out.Intro.GetAccessTokenType())
							}
							if e, ok := out.Num("exp"); !ok || int64(e) != t.Exp.Unix() {
								bad = append(bad, fmt.Sprintf("exp=%v want %d", out.JSON["exp"], t.Exp.Unix()))
							}
						}
						if len(bad) > 0 {
							c.Violate(run.Violation{Kind: "http-payload", Key: "http-payload " + originOf(t), Case: id, Detail: strings.Join(bad, "; ") + " body=" + out.Body, History: hist()})
						}
					}
				}
			}
			// mutants of this token are never active
			for m := 0; m < 4; m++ {
				mv := mutateTok(t.Value, m)
				if mv == t.Value {
					continue
				}
				out := w.IntrospectHTTP(url.Values{"token": {mv}, "token_type_hint": {pick(r, []string{"", "access_token", "refresh_token"})}}, world.Basic("conf-b", "secret-of-b"), "")
				c.Case(fmt.Sprintf("http mutant=%d kind=%s active=%v", m, t.Kind, out.JSON["active"]))
				if a, _ := out.JSON["active"].(bool); a {
					c.Violate(run.Violation{Kind: "mutant-active", Key: fmt.Sprintf("mutant-active m=%d kind=%s", m, t.Kind), Case: id, Detail: "mutated credential reported active: " + out.Body})
				}
			}
		}
		if i < 1 {
			c.Sample(map[string]interface{}{"world": v.String(), "disable_refresh_validation": disableRT, "tokens": len(toks), "callers": len(callers), "history_prefix": s.Hist[:min(12, len(s.Hist))]})
		}
	}
}

func min(a, b int) int {
	if a < b {
		return a
	}
	return b
}

func hintName(h, kind string) string {
	switch h {
	case "":
		return "absent"
	case kind + "_token":
		return "right"
	case "access_token", "refresh_token":
		return "wrong"
	}
	return "garbage"
}

func originOf(t *sim.Tok) string {
	o := t.Grant.Origin
	if t.Implicit {
		o += "-implicit"
	}
	return o + "/" + t.Kind
}

// leanSess is an integrator-supplied session type as found in the field: JSON-tagged with omitempty, so that a stored
// session only carries what it has.
type leanSess struct {
	Exp  map[fosite.TokenType]time.Time `json:"exp,omitempty"`
	User string                         `json:"user,omitempty"`
	Sub  string                         `json:"sub,omitempty"`
	Ext  map[string]interface{}         `json:"ext,omitempty"`
}

func (s *leanSess) SetExpiresAt(k fosite.TokenType, t time.Time) {
	if s.Exp == nil {
		s.Exp = map[fosite.TokenType]time.Time{}
	}
	s.Exp[k] = t
}
func (s *leanSess) GetExpiresAt(k fosite.TokenType) time.Time { return s.Exp[k] }
func (s *leanSess) GetUsername() string                       { return s.User }
func (s *leanSess) GetSubject() string                        { return s.Sub }
func (s *leanSess) GetExtraClaims() map[string]interface{}    { return s.Ext }
func (s *leanSess) Clone() fosite.Session {
	if s == nil {
		return nil
	}
	o := &leanSess{User: s.User, Sub: s.Sub}
	if s.Exp != nil {
		o.Exp = map[fosite.TokenType]time.Time{}
		for k, v := range s.Exp {
			o.Exp[k] = v
		}
	}
	if s.Ext != nil {
		o.Ext = map[string]interface{}{}
		for k, v := range s.Ext {
			o.Ext[k] = v
		}
	}
	return o
}

// c09LeanSession: what the endpoint reports about a token is that token's own subject, username and extra claims, also
// when the caller authenticates with a bearer token of another grant, the store unmarshals stored sessions into the
// prototype it is handed (SQL-like store), and the integrator's session type omits empty fields.
func c09LeanSession(c *run.Ctx) {
	if !c.Mine(5) && c.NShards > 5 {
		return
	}
	for _, hydrate := range []bool{true, false} {
		w := world.New(world.Opts{Mode: world.Mode{DB: true, Hydrate: hydrate}, SessFactory: func(sub string) fosite.Session {
			s := &leanSess{Sub: sub}
			if sub != "" {
				s.User = "login-of-" + sub
				s.Ext = map[string]interface{}{"tenant": "tenant-of-" + sub}
			}
			return s
		}})
		a := world.Basic("conf-a", "secret-of-a")
		az := w.Authorize(url.Values{"client_id": {"conf-a"}, "response_type": {"code"}, "scope": {"fosite offline"}, "state": {"state-0123456789"}, "redirect_uri": {"https://app-a.example/cb"}}, world.Consent{Subject: "user-9"})
		ut := w.Token(url.Values{"grant_type": {"authorization_code"}, "code": {az.Params.Get("code")}, "redirect_uri": {"https://app-a.example/cb"}}, a)
		cc1 := w.Token(url.Values{"grant_type": {"client_credentials"}, "scope": {"fosite"}}, a)
		cc2 := w.Token(url.Values{"grant_type": {"client_credentials"}, "scope": {"fosite"}}, world.Basic("conf-b", "secret-of-b"))
		if ut.Err != nil || cc1.Err != nil || cc2.Err != nil {
			c.Inconcl("lean-session world could not issue tokens: " + world.ErrDetail(ut.Err) + world.ErrDetail(cc1.Err) + world.ErrDetail(cc2.Err))
			continue
		}
		type probe struct {
			name, token, bearer string
			auth                world.Auth
			sub, user, tenant   string
		}
		probes := []probe{
			{"machine-token inspected by a caller holding a user's token", cc1.S("access_token"), ut.S("access_token"), world.Auth{}, "", "", ""},
			{"machine-token inspected with client credentials", cc1.S("access_token"), "", a, "", "", ""},
			{"user-token inspected by a caller holding a machine token", ut.S("access_token"), cc2.S("access_token"), world.Auth{}, "user-9", "login-of-user-9", "tenant-of-user-9"},
			{"user-refresh-token inspected by a caller holding a machine token", ut.S("refresh_token"), cc2.S("access_token"), world.Auth{}, "user-9", "login-of-user-9", "tenant-of-user-9"},
			{"machine-token inspected by a caller holding another machine token", cc2.S("access_token"), cc1.S("access_token"), world.Auth{}, "", "", ""},
			{"machine-token inspected by a caller holding a user's token (again)", cc2.S("access_token"), ut.S("access_token"), world.Auth{}, "", "", ""},
		}
		for _, p := range probes {
			out := w.IntrospectHTTP(url.Values{"token": {p.token}}, p.auth, p.bearer)
			active, _ := out.JSON["active"].(bool)
			c.Case(fmt.Sprintf("lean-session hydrate=%v %s active=%v", hydrate, p.name, active))
			c.Count("c09_lean_session_probes", 1)
			if !active || out.Intro == nil {
				c.Violate(run.Violation{Kind: "http-inactive-but-live", Key: "http-inactive-but-live lean-session " + p.name, Detail: "body " + out.Body + " " + world.ErrDetail(out.Err)})
				continue
			}
			gotSub, _ := out.JSON["sub"].(string)
			gotUser, _ := out.JSON["username"].(string)
			gotTenant, _ := out.JSON["tenant"].(string)
			if ext, ok := out.JSON["ext"].(map[string]interface{}); ok && gotTenant == "" {
				gotTenant, _ = ext["tenant"].(string)
			}
			if gotSub != p.sub || gotUser != p.user || gotTenant != p.tenant || out.Intro.GetAccessRequester().GetSession().GetSubject() != p.sub {
				c.Violate(run.Violation{Kind: "payload", Key: "payload lean-session: " + p.name, Detail: fmt.Sprintf("hydrating store=%v: reported sub=%q username=%q tenant=%q, the token's own are sub=%q username=%q tenant=%q; body %s",
					hydrate, gotSub, gotUser, gotTenant, p.sub, p.user, p.tenant, out.Body)})
			}
		}
	}
}

// c09TwoIntrospectors: JWT access tokens with fosite's stateless JWT validator registered in front of the storage-backed
// introspection handler. Every registered handler has a say: what the first one accepts on the signature alone, the second
// one still refuses once the token was revoked, rotated away or has expired.
func c09TwoIntrospectors(c *run.Ctx) {
	if !c.Mine(7) && c.NShards > 7 {
		return
	}
	w := world.New(world.Opts{JWTAccess: true, StatelessIntrospectionFirst: true})
	a := world.Basic("conf-a", "secret-of-a")
	judge := func(what, tok string, want bool) {
		got := w.IntrospectAPI(tok, fosite.AccessToken).Active
		out := w.IntrospectHTTP(url.Values{"token": {tok}}, world.Basic("conf-b", "secret-of-b"), "")
		http, _ := out.JSON["active"].(bool)
		c.Case(fmt.Sprintf("two-introspectors %s want-active=%v api=%v http=%v", what, want, got, http))
		c.Count("c09_two_introspector_probes", 1)
		if got != want || http != want {
			kind, key := "http-active-but-dead", "http-active-but-dead two-introspectors "+what
			if want {
				kind, key = "http-inactive-but-live", "http-inactive-but-live two-introspectors "+what
			}
			c.Violate(run.Violation{Kind: kind, Key: key, Detail: fmt.Sprintf("stateless JWT validator registered before the storage-backed one: %s, expected active=%v, API says %v, endpoint says %s", what, want, got, out.Body)})
		}
	}
	cc := w.Token(url.Values{"grant_type": {"client_credentials"}, "scope": {"fosite"}}, a)
	pw := w.Token(url.Values{"grant_type": {"password"}, "username": {world.UserName}, "password": {world.UserPass}, "scope": {"offline fosite"}}, a)
	if cc.Err != nil || pw.Err != nil {
		c.Inconcl("two-introspectors world could not issue tokens: " + world.ErrDetail(cc.Err) + world.ErrDetail(pw.Err))
		return
	}
	judge("fresh client_credentials token", cc.S("access_token"), true)
	judge("fresh password-grant token", pw.S("access_token"), true)
	w.Revoke(url.Values{"token": {cc.S("access_token")}}, a)
	judge("revoked token", cc.S("access_token"), false)
	rf := w.Token(url.Values{"grant_type": {"refresh_token"}, "refresh_token": {pw.S("refresh_token")}}, a)
	judge("token rotated away by a refresh", pw.S("access_token"), false)
	if rf.Err == nil {
		judge("token minted by the refresh", rf.S("access_token"), true)
		world.Sleep(2 * time.Hour)
		judge("expired token", rf.S("access_token"), false)
	}
}

// c09ReservedExtras: the session's extra claims (data the integrator attaches, often taken from an upstream identity) travel in
// the introspection response, but they must not displace what the endpoint itself reports: whether the token is active, its
// client, subject, scopes, audience and expiry.
func c09ReservedExtras(c *run.Ctx) {
	if !c.Mine(6) && c.NShards > 6 {
		return
	}
	hostile := map[string]interface{}{"active": false, "client_id": "extra-client", "sub": "extra-sub", "scope": "admin", "aud": []string{"https://extra.example"}, "exp": 1, "iat": 1, "username": "extra-user", "tenant": "t-9"}
	w := world.New(world.Opts{SessFactory: func(sub string) fosite.Session {
		s := &leanSess{Sub: sub, Ext: map[string]interface{}{}}
		for k, v := range hostile {
			s.Ext[k] = v
		}
		if sub != "" {
			s.User = "login-of-" + sub
		}
		return s
	}})
	a := world.Basic("conf-a", "secret-of-a")
	az := w.Authorize(url.Values{"client_id": {"conf-a"}, "response_type": {"code"}, "scope": {"fosite offline"}, "state": {"state-0123456789"}, "redirect_uri": {"https://app-a.example/cb"}}, world.Consent{Subject: "user-9"})
	ut := w.Token(url.Values{"grant_type": {"authorization_code"}, "code": {az.Params.Get("code")}, "redirect_uri": {"https://app-a.example/cb"}}, a)
	if ut.Err != nil {
		c.Inconcl("reserved-extras world could not issue tokens: " + world.ErrDetail(ut.Err))
		return
	}
	for _, kind := range []string{"access_token", "refresh_token"} {
		out := w.IntrospectHTTP(url.Values{"token": {ut.S(kind)}}, world.Basic("conf-b", "secret-of-b"), "")
		c.Case(fmt.Sprintf("reserved-extras %s body-active=%v", kind, out.JSON["active"]))
		c.Count("c09_reserved_extras_probes", 1)
		bad := []string{}
		if act, _ := out.JSON["active"].(bool); !act {
			bad = append(bad, fmt.Sprintf("active=%v (the token is live)", out.JSON["active"]))
		}
		if out.JSON["client_id"] != "conf-a" {
			bad = append(bad, fmt.Sprintf("client_id=%v", out.JSON["client_id"]))
		}
		if out.JSON["sub"] != "user-9" {
			bad = append(bad, fmt.Sprintf("sub=%v", out.JSON["sub"]))
		}
		if sc, _ := out.JSON["scope"].(string); strings.Contains(" "+sc+" ", " admin ") {
			bad = append(bad, fmt.Sprintf("scope=%v", out.JSON["scope"]))
		}
		if au := fmt.Sprint(out.JSON["aud"]); strings.Contains(au, "extra.example") {
			bad = append(bad, "aud="+au)
		}
		if ex, ok := out.JSON["exp"].(float64); ok && ex == 1 {
			bad = append(bad, "exp=1")
		}
		if out.JSON["username"] == "extra-user" {
			bad = append(bad, "username=extra-user")
		}
		if len(bad) > 0 {
			c.Violate(run.Violation{Kind: "payload", Key: "payload reserved-extras: an extra claim displaced what the endpoint reports (" + kind + ")", Detail: strings.Join(bad, "; ") + " | body " + out.Body})
		}
	}
	c.Sample(map[string]interface{}{"reserved_extras": "session extra claims named active / client_id / sub / scope / aud / exp / iat / username"})
}

// hexStrategy is an integrator-written token strategy: tokens are 64 hex characters of randomness (no dot, no prefix), the
// store key is the SHA-256 of the token, validity is the session's expiry.
type hexStrategy struct{}

func (hexStrategy) gen() (string, string, error) {
	b := make([]byte, 32)
	if _, err := crand.Read(b); err != nil {
		return "", "", err
	}
	t := hex.EncodeToString(b)
	return t, hexStrategy{}.sig(t), nil
}
func (hexStrategy) sig(t string) string {
	h := sha256.Sum256([]byte(t))
	return hex.EncodeToString(h[:])
}
func (hexStrategy) valid(r fosite.Requester, k fosite.TokenType) error {
	if exp := r.GetSession().GetExpiresAt(k); !exp.IsZero() && exp.Before(time.Now()) {
		return fosite.ErrTokenExpired
	}
	return nil
}
func (s hexStrategy) AccessTokenSignature(ctx context.Context, t string) string   { return s.sig(t) }
func (s hexStrategy) RefreshTokenSignature(ctx context.Context, t string) string  { return s.sig(t) }
func (s hexStrategy) AuthorizeCodeSignature(ctx context.Context, t string) string { return s.sig(t) }
func (s hexStrategy) GenerateAccessToken(ctx context.Context, r fosite.Requester) (string, string, error) {
	return s.gen()
}
func (s hexStrategy) GenerateRefreshToken(ctx context.Context, r fosite.Requester) (string, string, error) {
	return s.gen()
}
func (s hexStrategy) GenerateAuthorizeCode(ctx context.Context, r fosite.Requester) (string, string, error) {
	return s.gen()
}
func (s hexStrategy) ValidateAccessToken(ctx context.Context, r fosite.Requester, t string) error {
	return s.valid(r, fosite.AccessToken)
}
func (s hexStrategy) ValidateRefreshToken(ctx context.Context, r fosite.Requester, t string) error {
	return s.valid(r, fosite.RefreshToken)
}
func (s hexStrategy) ValidateAuthorizeCode(ctx context.Context, r fosite.Requester, t string) error {
	return s.valid(r, fosite.AuthorizeCode)
}

// c09IntegratorStrategy: the caller-authentication rules of the introspection endpoint do not depend on what the shipped
// strategies' tokens look like.
func c09IntegratorStrategy(c *run.Ctx) {
	if !c.Mine(6) && c.NShards > 6 {
		return
	}
	w := world.New(world.Opts{CoreStrategy: func(*fosite.Config) oauth2.CoreStrategy { return hexStrategy{} }})
	a := world.Basic("conf-a", "secret-of-a")
	x := w.Token(url.Values{"grant_type": {"password"}, "username": {world.UserName}, "password": {world.UserPass}, "scope": {"offline fosite"}}, a)
	y := w.Token(url.Values{"grant_type": {"client_credentials"}, "scope": {"fosite"}}, world.Basic("conf-b", "secret-of-b"))
	if x.Err != nil || y.Err != nil || strings.Contains(x.S("access_token"), ".") {
		c.Inconcl("integrator strategy world could not issue tokens: " + world.ErrDetail(x.Err) + world.ErrDetail(y.Err))
		return
	}
	type probe struct {
		name, token, bearer string
		auth                world.Auth
		answered            bool
	}
	probes := []probe{
		{"bearer is the inspected access token", x.S("access_token"), x.S("access_token"), world.Auth{}, false},
		{"bearer is another active access token", x.S("access_token"), y.S("access_token"), world.Auth{}, true},
		{"bearer is the refresh token of the grant", x.S("access_token"), x.S("refresh_token"), world.Auth{}, false},
		{"bearer is garbage", x.S("access_token"), strings.Repeat("0", 64), world.Auth{}, false},
		{"client credentials", x.S("access_token"), "", a, true},
		{"refresh token inspected, bearer another access token", x.S("refresh_token"), y.S("access_token"), world.Auth{}, true},
	}
	for _, p := range probes {
		out := w.IntrospectHTTP(url.Values{"token": {p.token}}, p.auth, p.bearer)
		active, _ := out.JSON["active"].(bool)
		c.Case(fmt.Sprintf("integrator-strategy %s answered=%v active=%v", p.name, out.Err == nil, active))
		c.Count("c09_integrator_strategy_probes", 1)
		if !p.answered && (out.Err == nil || active) {
			c.Violate(run.Violation{Kind: "unauthenticated-caller-answered", Key: "unauthenticated-caller-answered integrator-strategy: " + p.name, Detail: fmt.Sprintf("status %d body %s", out.Status, out.Body)})
		}
		if p.answered && !active {
			c.Violate(run.Violation{Kind: "http-inactive-but-live", Key: "http-inactive-but-live integrator-strategy: " + p.name, Detail: fmt.Sprintf("status %d body %s %s", out.Status, out.Body, world.ErrDetail(out.Err))})
		}
	}
}

// respellKeyPart changes the two spare bits of the last base64url character of an opaque token's random part (32 bytes are
// 42 full characters plus one that carries 4 bits). JWTs and other shapes are returned unchanged.
func respellKeyPart(tok string) string {
	const alpha = "ABCDEFGHIJKLMNOPQRSTUVWXYZabcdefghijklmnopqrstuvwxyz0123456789-_"
	parts := strings.Split(tok, ".")
	if len(parts) != 2 {
		return tok
	}
	key := parts[0]
	body := key[strings.LastIndex(key, "_")+1:]
	if len(body) != 43 {
		return tok
	}
	i := strings.IndexByte(alpha, key[len(key)-1])
	if i < 0 {
		return tok
	}
	return key[:len(key)-1] + string(alpha[i^1]) + "." + parts[1]
}
