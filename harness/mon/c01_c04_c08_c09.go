package mon

import (
	"fmt"
	"math/rand"
	"net/url"
	"strings"
	"time"

	"fverif/run"
	"fverif/sim"
	"fverif/world"
)

func init() {
	Registry["C01"] = C01
	Registry["C04"] = C04
	Registry["C08"] = C08
	Registry["C09hist"] = c09hist
}

func caseRng(c *run.Ctx, i int) *rand.Rand {
	return rand.New(rand.NewSource(c.Seed*7_000_003 + int64(c.Shard)*104_729 + int64(i)*31 + 5))
}

// C01 — authorization code single-use; replay kills the family.
func C01(c *run.Ctx) {
	n := c.N(400, 50000)
	c.Need("replays_with_family", 1)
	c.Need("redeem_ok", 1)
	for i := 0; i < n; i++ {
		id := fmt.Sprintf("s%d-h%d", c.Shard, i)
		if c.Only != "" && c.Only != id {
			continue
		}
		r := caseRng(c, i)
		v := variant(i*c.NShards + c.Shard)
		w := v.build(nil)
		s := sim.New(w, c, "code-twice", "replay-error-class", "alive:replay", "dead-unexpected", "rightful-redeem-refused", "code-binding")
		s.CaseID = id
		s.BothHints = i%5 == 0
		// skeleton: two independent grants, one replayed after k refreshes, the other must survive
		rts := []string{"code", "code id_token", "code token", "code id_token token"}
		victim := s.Authorize(sim.AuthzReq{Client: pick(r, clientIDs), RT: pick(r, rts), Scopes: []string{"openid", "offline", "photos", "fosite"}, Subject: "user-1"})
		bystander := s.Authorize(sim.AuthzReq{Client: pick(r, clientIDs), RT: "code", Scopes: []string{"offline", "photos"}, Subject: "user-2"})
		if victim == nil || bystander == nil || victim.Code == nil {
			c.Inconcl("skeleton authorize failed in " + id)
			continue
		}
		s.Redeem(bystander, sim.RedeemOpts{})
		s.Sweep("setup")
		k := []int{0, 1, 1, 3, 3, 5}[r.Intn(6)]
		pad := 4 + r.Intn(40)
		replayAt := r.Intn(pad + 1)
		redeemed := false
		for step := 0; step <= pad; step++ {
			if step == replayAt {
				if !redeemed {
					s.Redeem(victim, sim.RedeemOpts{})
					redeemed = true
				}
				for j := 0; j < k && victim.Latest != nil; j++ {
					s.Refresh(victim.Latest, "", nil)
					s.Sweep("refresh")
				}
				if i%4 == 1 {
					// let the code's own lifetime pass (its tokens live on) and have another code issued before the replay
					s.Advance(s.Cfg.CodeLife + time.Minute)
					s.Authorize(sim.AuthzReq{Client: pick(r, clientIDs), RT: "code", Scopes: []string{"fosite"}})
					s.Sweep("advance-past-code-lifetime")
				}
				// the replay; sometimes by a foreign authenticated client
				o := sim.RedeemOpts{}
				if r.Intn(3) == 0 {
					o.As = otherClient(r, victim.Client)
				}
				s.Redeem(victim, o)
				s.Sweep("replay")
				continue
			}
			if !redeemed && r.Intn(3) == 0 {
				s.Redeem(victim, sim.RedeemOpts{})
				redeemed = true
				s.Sweep("redeem")
				continue
			}
			randStep(s, r, defaultWeights)
			s.Sweep("step")
		}
		if i < 2 {
			c.Sample(sample(s, v))
		}
	}
}

// C04 — refresh rotation, reuse kills the family.
func C04(c *run.Ctx) {
	n := c.N(400, 50000)
	c.Need("reuse_presentations", 1)
	c.Need("refresh_ok", 1)
	for i := 0; i < n; i++ {
		id := fmt.Sprintf("s%d-h%d", c.Shard, i)
		if c.Only != "" && c.Only != id {
			continue
		}
		r := caseRng(c, i)
		v := variant(i*c.NShards + c.Shard)
		w := v.build(nil)
		s := sim.New(w, c, "refresh-twice", "reuse-error-class", "alive:rotate", "alive:reuse", "dead-unexpected", "rightful-refresh-refused", "refresh-not-rotated")
		s.CaseID = id
		s.BothHints = i%5 == 0
		sc := []string{"offline", "photos", "fosite"}
		var fam []*sim.Grant
		// ≥3 independent families of different origin
		origins := []string{"code", "hybrid", "password", "device"}
		r.Shuffle(len(origins), func(a, b int) { origins[a], origins[b] = origins[b], origins[a] })
		for _, o := range origins[:3] {
			var g *sim.Grant
			switch o {
			case "code":
				g = s.Authorize(sim.AuthzReq{Client: pick(r, clientIDs), RT: "code", Scopes: sc})
			case "hybrid":
				g = s.Authorize(sim.AuthzReq{Client: pick(r, clientIDs), RT: pick(r, []string{"code id_token", "code token", "code id_token token"}), Scopes: append([]string{"openid"}, sc...)})
			case "password":
				g = s.Password(pick(r, []string{"conf-a", "conf-b", "rich-d"}), sc)
			case "device":
				g = s.DeviceGrant(pick(r, []string{"conf-a", "pub-c"}), sc)
			}
			if g == nil {
				continue
			}
			if g.Code != nil {
				s.Redeem(g, sim.RedeemOpts{})
			}
			if g.Latest != nil {
				fam = append(fam, g)
			}
		}
		if len(fam) < 2 {
			c.Inconcl("could not build two families in " + id)
			continue
		}
		s.Sweep("setup")
		victim := fam[0]
		depth := 1 + r.Intn(8)
		var gens []*sim.Tok
		for d := 0; d < depth && victim.Latest != nil && victim.Killed == ""; d++ {
			gens = append(gens, victim.Latest)
			if i%3 == 0 {
				s.Advance(time.Duration(5+r.Intn(20)) * time.Minute)
			}
			s.Refresh(victim.Latest, "", nil)
			s.Sweep("refresh")
			if r.Intn(3) == 0 {
				randStep(s, r, Weights{Refresh: 4, Revoke: 1, Advance: 1, Other: 1})
				s.Sweep("step")
			}
		}
		if len(gens) > 0 && victim.Killed == "" && victim.Latest != nil && !gens[0].Exp.IsZero() && !victim.Latest.Exp.IsZero() && i%3 == 0 {
			// replay an early generation after ITS expiry but while the newest generation is still valid
			if d := gens[0].Exp.Add(time.Second).Sub(time.Now()); d > 0 && gens[0].Exp.Add(time.Second).Before(victim.Latest.Exp) {
				s.Advance(d)
				s.Sweep("advance-past-old-generation")
				c.Count("reuse_of_expired_generation", 1)
			}
		}
		if len(gens) > 0 && victim.Killed == "" {
			old := gens[r.Intn(len(gens))]
			if i%3 == 0 {
				old = gens[0]
			}
			s.Refresh(old, "", nil) // reuse of generation g < latest
			s.Sweep("reuse")
		}
		pad := r.Intn(25)
		for step := 0; step < pad; step++ {
			randStep(s, r, Weights{Authorize: 1, Redeem: 2, Refresh: 8, Revoke: 2, Other: 1, Advance: 2})
			s.Sweep("step")
		}
		if i < 2 {
			c.Sample(sample(s, v))
		}
	}
}

// C08 — revocation effective, complete, owner-only.
func C08(c *run.Ctx) {
	n := c.N(300, 40000)
	c.Need("revocations_accepted", 1)
	for i := 0; i < n; i++ {
		id := fmt.Sprintf("s%d-h%d", c.Shard, i)
		if c.Only != "" && c.Only != id {
			continue
		}
		r := caseRng(c, i)
		v := variant(i*c.NShards + c.Shard)
		w := v.build(nil)
		s := sim.New(w, c, "alive:revoke", "dead-unexpected", "revoke-unauthenticated", "revoke-invalid-token-not-success", "revoke-foreign-class", "revoke-refused", "revoke-changed-state", "revoke-expired-changed-state")
		s.CaseID = id
		sc := []string{"openid", "offline", "photos"}
		// a cast of grants of every origin, including hybrid responses with an implicit token
		var gs []*sim.Grant
		for _, rt := range []string{"code", "code token", "code id_token token", "token"} {
			if g := s.Authorize(sim.AuthzReq{Client: pick(r, clientIDs), RT: rt, Scopes: sc}); g != nil {
				if g.Code != nil {
					s.Redeem(g, sim.RedeemOpts{})
				}
				gs = append(gs, g)
			}
		}
		s.Password("conf-a", []string{"offline", "fosite"})
		s.ClientCredentials("conf-b", []string{"fosite"}, nil)
		s.Sweep("setup")
		steps := 8 + r.Intn(30)
		for step := 0; step < steps; step++ {
			if r.Intn(2) == 0 && len(s.Toks) > 0 {
				t := pick(r, s.Toks)
				as, bad := "", false
				switch r.Intn(8) {
				case 0, 1:
					as = otherClient(r, t.Grant.Client)
				case 2:
					bad = !s.W.Specs[t.Grant.Client].Public
				}
				s.Revoke(t, as, pick(r, []string{"", "access_token", "refresh_token", "garbage"}), bad)
				s.Sweep("revoke")
				// the refresh token issued alongside must be unusable at the token endpoint as well
				if t.Peer != nil && t.Peer.Kind == "refresh" && r.Intn(2) == 0 {
					s.Refresh(t.Peer, "", nil)
					s.Sweep("refresh-after-revoke")
				} else if t.Kind == "refresh" && r.Intn(2) == 0 {
					s.Refresh(t, "", nil)
					s.Sweep("refresh-after-revoke")
				}
				continue
			}
			if r.Intn(6) == 0 && len(s.Toks) > 0 {
				// never issued / mutated tokens: answered with success, nothing changes
				t := pick(r, s.Toks)
				unknown := pick(r, []string{"ory_at_never.issued", "garbage", mutateTok(t.Value, 0), mutateTok(t.Value, 2), "ory_rt_" + strings.Repeat("A", 43) + "." + strings.Repeat("B", 43), forgeRandomPart(t.Value)})
				if unknown == t.Value { // not an opaque token: nothing to forge
					unknown = "garbage"
				}
				forged := unknown == forgeRandomPart(t.Value)
				before := w.Store.Digest()
				out := w.Revoke(url.Values{"token": {unknown}, "token_type_hint": {pick(r, []string{"", "access_token", "refresh_token"})}}, authFor(w, t.Grant.Client))
				c.Case(fmt.Sprintf("revoke unknown-token err=%s status=%d", out.ErrName, out.Status))
				c.Count("revocations_of_unknown_tokens", 1)
				if out.Err != nil || out.Status != 200 {
					c.Violate(run.Violation{Kind: "revoke-invalid-token-not-success", Key: "revoke-invalid-token-not-success unknown", Case: id, Detail: fmt.Sprintf("revoking a never-issued token answered %s / %d", out.ErrName, out.Status), History: s.Hist})
				}
				if d := world.DigestDiff(before, w.Store.Digest()); len(d) > 0 {
					key := "revoke-changed-state unknown-token"
					if forged {
						// never issued by this server: the random part is not the one the signature authenticates
						key = "revoke-changed-state never-issued token: stored signature behind a different random part"
						c.Count("revocations_of_forged_random_part_effective", 1)
						s.ForgetAfterForgedRevocation(t)
					}
					c.Violate(run.Violation{Kind: "revoke-changed-state", Key: key, Case: id, Detail: strings.Join(d, "\n"), History: s.Hist})
				}
				s.Sweep("revoke-unknown")
				continue
			}
			randStep(s, r, Weights{Authorize: 2, Redeem: 2, Refresh: 4, Revoke: 0, Other: 1, Advance: 2})
			s.Sweep("step")
		}
		if i < 2 {
			c.Sample(sample(s, v))
		}
	}
}

// c09hist is the history half of C09: long histories over all grant types, the
// sweep is the main act.
func c09hist(c *run.Ctx) {
	n := c.N(150, 12000)
	for i := 0; i < n; i++ {
		id := fmt.Sprintf("s%d-h%d", c.Shard, i)
		if c.Only != "" && c.Only != id {
			continue
		}
		r := caseRng(c, i)
		v := variant(i*c.NShards + c.Shard)
		w := v.build(nil)
		s := sim.New(w, c) // judges everything the sweep sees
		s.BothHints = true
		steps := 30 + r.Intn(60)
		for step := 0; step < steps; step++ {
			randStep(s, r, defaultWeights)
			s.Sweep("step")
		}
		s.Advance(2 * time.Hour)
		s.Sweep("advance")
		if i < 2 {
			c.Sample(sample(s, v))
		}
	}
}

// forgeRandomPart keeps an opaque token's signature part and replaces its random part (a string this server never issued).
// JWTs and malformed values are returned unchanged.
func forgeRandomPart(v string) string {
	parts := strings.Split(v, ".")
	if len(parts) != 2 || len(parts[0]) < 12 {
		return v
	}
	i := strings.LastIndex(parts[0], "_") + 1
	if i >= len(parts[0]) {
		return v
	}
	b := []byte(parts[0])
	for j := i; j < len(b); j++ {
		if b[j] == 'A' {
			b[j] = 'B'
		} else {
			b[j] = 'A'
		}
	}
	return string(b) + "." + parts[1]
}
