package mon

import (
	"encoding/base64"
	"fmt"

	"github.com/ory/fosite"
	"net/url"
	"strings"
	"time"

	"fverif/run"
	"fverif/sim"
	"fverif/world"
)

func init() { Registry["C02"] = C02 }

// C02 — code bound to client, redirect_uri, lifetime; grant immutable.
func C02(c *run.Ctx) {
	n := c.N(600, 100000)
	c.Need("foreign_or_wrong_redirect_attempts", 1)
	c.Need("redeem_ok", 1)
	c.Need("expired_code_attempts", 1)
	pairs := [][2]string{{"conf-a", "conf-b"}, {"conf-b", "pub-c"}, {"pub-c", "conf-a"}, {"pub-c", "pub-e"}, {"rich-d", "conf-a"}, {"conf-a", "rich-d"}}
	for i := 0; i < n; i++ {
		id := fmt.Sprintf("s%d-h%d", c.Shard, i)
		if c.Only != "" && c.Only != id {
			continue
		}
		r := caseRng(c, i)
		gi := i*c.NShards + c.Shard
		v := variant(gi)
		w := v.build(func(cfg *fosite.Config) {
			if gi%4 == 3 {
				cfg.RefreshTokenLifespan = -1 // refresh tokens never expire: must not touch the code's lifetime
			}
			if gi%5 == 2 {
				// the integrator keeps one more form value with stored requests ("a whitelist of form values that are required by
				// the token endpoint"): the code stays bound to its redirect_uri all the same
				cfg.SanitationWhiteList = []string{"tenant"}
			}
		})
		// a second public client for the public/public pair
		w.AddClient(world.ClientSpec{ID: "pub-e", Public: true, RedirectURIs: []string{"https://app-e.example/cb"},
			GrantTypes: []string{"authorization_code", "refresh_token"}, ResponseTypes: world.AllResponseTypes,
			Scopes: []string{"openid", "offline", "fosite", "photos", "profile"}, Audience: []string{"https://api.example/c"}})
		s := sim.New(w, c, "code-binding", "code-binding-error-class", "rightful-redeem-refused", "alive:expired", "payload", "failed-attempt-wrote-state", "code-twice", "requested-scope-changed", "requested-audience-changed")
		s.CaseID = id
		for k := r.Intn(6); k > 0; k-- {
			randStep(s, r, defaultWeights)
		}
		pr := pairs[gi%len(pairs)]
		owner, foreign := pr[0], pr[1]
		sp := w.Specs[owner]
		rt := pick(r, []string{"code", "code", "code id_token", "code token", "code id_token token"})
		req := []string{"offline", "photos", "fosite", "profile"}
		if rt != "code" && rt != "code token" || r.Intn(2) == 0 {
			req = append([]string{"openid"}, req...)
		}
		granted := subset(r, req, 0.7)
		if has(req, "openid") {
			granted = addUnique(granted, "openid")
		}
		auds := sp.Audience
		gaud := subset(r, auds, 0.5)
		// redirect presentation at authorization: sent or (plain code flow without openid, single registered uri) omitted
		red := ""
		if rt == "code" && !has(req, "openid") && len(sp.RedirectURIs) == 1 && gi%5 == 0 {
			red = "-"
		}
		if owner == "conf-b" && gi%2 == 0 {
			red = sp.RedirectURIs[1]
		}
		g := s.Authorize(sim.AuthzReq{Client: owner, RT: rt, Scopes: req, Granted: granted, Aud: auds, GrantAud: gaud, Redirect: red, Subject: pick(r, []string{"user-1", "user-2"})})
		if g == nil || g.Code == nil {
			c.Inconcl("authorize failed in " + id)
			continue
		}
		sent := g.Code.Redirect
		// age
		ages := []time.Duration{time.Second, s.Cfg.CodeLife - time.Second, s.Cfg.CodeLife, s.Cfg.CodeLife + time.Second, 24 * time.Hour}
		age := ages[[]int{0, 0, 0, 1, 1, 2, 3, 3, 4}[gi%9]]
		s.Advance(age)
		if r.Intn(3) == 0 {
			randStep(s, r, Weights{Authorize: 1, Refresh: 2, Revoke: 1, Other: 1})
		}
		// failed attempts
		nAtt := 1 + r.Intn(3)
		for a := 0; a < nAtt; a++ {
			switch r.Intn(7) {
			case 0: // foreign client, plain
				s.Redeem(g, sim.RedeemOpts{As: foreign})
			case 1: // foreign client authenticating as itself while naming the owner in the body
				fsp := w.Specs[foreign]
				if fsp.Public {
					if r.Intn(2) == 0 {
						s.Redeem(g, sim.RedeemOpts{As: foreign})
					} else {
						// a public client identifies itself in the Basic header (empty password) and names the owner in the body
						au := world.Auth{Mode: "raw", RawHeader: "Basic " + base64.StdEncoding.EncodeToString([]byte(url.QueryEscape(foreign)+":"))}
						s.Redeem(g, sim.RedeemOpts{As: foreign, Auth: &au, Extra: url.Values{"client_id": {owner}}})
					}
				} else {
					au := world.Basic(foreign, fsp.Secret)
					s.Redeem(g, sim.RedeemOpts{As: foreign, Auth: &au, Extra: url.Values{"client_id": {owner}}})
				}
			case 2: // another registered / an unregistered redirect_uri
				other := pick(r, []string{"https://evil.example/cb", sent + "/", sent + "?x=1", strings.Replace(sent, "https://", "http://", 1), sent + "x", pathCaseVariant(sent), pathCaseVariant(sent)})
				if len(sp.RedirectURIs) > 1 {
					for _, u := range sp.RedirectURIs {
						if u != sent && r.Intn(2) == 0 {
							other = u
						}
					}
				}
				if sent != "" {
					s.Redeem(g, sim.RedeemOpts{Redirect: &other})
				}
			case 3: // redirect_uri omitted although one was sent
				if sent != "" {
					empty := ""
					s.Redeem(g, sim.RedeemOpts{Redirect: &empty})
				}
			case 4: // URL-equivalent but not identical (unspecified)
				if sent != "" {
					eq := pick(r, []string{strings.Replace(sent, "app-", "APP-", 1), strings.Replace(sent, "/cb", "/%63b", 1), strings.Replace(sent, ".example/", ".example:443/", 1)})
					if eq != sent {
						s.Redeem(g, sim.RedeemOpts{Redirect: &eq, Equivalent: true})
					}
				}
			case 5: // foreign client with smuggled parameters
				s.Redeem(g, sim.RedeemOpts{As: foreign, Extra: url.Values{"scope": {"openid offline photos fosite profile"}}})
			case 6: // a redirect_uri presented although none was sent at authorization (no constraint: handled by the model as a normal redemption)
				if sent == "" {
					x := sp.RedirectURIs[0]
					s.Redeem(g, sim.RedeemOpts{Redirect: &x})
				}
			}
			s.Sweep("attempt")
			if g.Code.Used {
				break
			}
		}
		// the rightful redemption, with smuggled scope / audience parameters
		smuggle := url.Values{}
		switch r.Intn(6) {
		case 0:
			smuggle.Set("scope", strings.Join(scopePool, " "))
		case 1:
			smuggle.Set("scope", "admin root "+strings.Join(granted, " "))
		case 2:
			smuggle["audience"] = []string{"https://api.example/shared", "https://api.example/b", "https://evil.example"}
		case 3:
			smuggle.Set("scope", "")
			smuggle.Set("audience", "")
		case 4:
			smuggle.Set("subject", "admin")
			smuggle.Set("sub", "admin")
			smuggle.Set("username", "admin")
		}
		if !g.Code.Used {
			s.Redeem(g, sim.RedeemOpts{Extra: smuggle})
			s.Sweep("rightful-redeem")
		}
		if g.Latest != nil && r.Intn(2) == 0 {
			s.Refresh(g.Latest, "", smuggle)
			s.Sweep("refresh")
		}
		if gi%3 == 0 {
			// a code whose authorization request was pushed: it is bound to the PUSHED redirect_uri, not to a stray one sent
			// alongside the request_uri
			pushedURI, stray := "https://app-b.example/cb", "https://app-b.example/cb2"
			a := world.Basic("conf-b", "secret-of-b")
			p := w.PAR(url.Values{"client_id": {"conf-b"}, "response_type": {"code"}, "scope": {"offline fosite"}, "state": {"state-0123456789"}, "redirect_uri": {pushedURI}}, a)
			if p.Err == nil {
				q := url.Values{"client_id": {"conf-b"}, "request_uri": {p.S("request_uri")}}
				if gi%2 == 0 {
					q.Set("redirect_uri", stray)
				} else {
					q.Set("redirect_uri", "")
				}
				az := w.Authorize(q, world.Consent{})
				if code := az.Params.Get("code"); code != "" {
					bad := w.Token(url.Values{"grant_type": {"authorization_code"}, "code": {code}, "redirect_uri": {stray}}, a)
					c.Case(fmt.Sprintf("par-origin code redeemed with stray redirect_uri ok=%v err=%s", bad.Err == nil, bad.ErrName))
					if bad.Err == nil {
						c.Violate(run.Violation{Kind: "code-binding", Key: "code-binding par-origin wrongRedirect=true", Case: id, Detail: "a code from a pushed authorization request was redeemed with a redirect_uri other than the pushed one", History: s.Hist})
					} else if bad.ErrName != "invalid_grant" {
						c.Violate(run.Violation{Kind: "code-binding-error-class", Key: "code-binding-error-class par-origin", Case: id, Detail: "answered " + bad.ErrName, History: s.Hist})
					} else {
						none := w.Token(url.Values{"grant_type": {"authorization_code"}, "code": {code}}, a)
						if none.Err == nil {
							c.Violate(run.Violation{Kind: "code-binding", Key: "code-binding par-origin redirect omitted", Case: id, Detail: "a code from a pushed authorization request was redeemed without redirect_uri", History: s.Hist})
						} else {
							good := w.Token(url.Values{"grant_type": {"authorization_code"}, "code": {code}, "redirect_uri": {pushedURI}}, a)
							c.Case(fmt.Sprintf("par-origin code redeemed with the pushed redirect_uri ok=%v", good.Err == nil))
							if good.Err != nil {
								c.Violate(run.Violation{Kind: "rightful-redeem-refused", Key: "rightful-redeem-refused par-origin", Case: id, Detail: "refused with the pushed redirect_uri: " + world.ErrDetail(good.Err), History: s.Hist})
							}
						}
					}
					c.Count("c02_par_origin_codes", 1)
				}
			}
		}
		for k := r.Intn(5); k > 0; k-- {
			randStep(s, r, defaultWeights)
			s.Sweep("step")
		}
		if i < 2 {
			c.Sample(sample(s, v))
		}
	}
}

// pathCaseVariant changes the letter case of the path (and query) of a URI: paths are case-sensitive, so this is a different URI.
func pathCaseVariant(u string) string {
	i := strings.Index(u, "://")
	if i < 0 {
		return u + "X"
	}
	j := strings.Index(u[i+3:], "/")
	if j < 0 {
		return u + "/X"
	}
	k := i + 3 + j
	v := u[:k] + strings.ToUpper(u[k:])
	if v == u {
		v = u[:k] + strings.ToLower(u[k:])
	}
	if v == u {
		return u + "X"
	}
	return v
}
