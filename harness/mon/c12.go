package mon

import (
	"fmt"
	"net/url"
	"strings"
	"time"

	"github.com/ory/fosite"

	"fverif/run"
	"fverif/spec"
	"fverif/world"
)

func init() { Registry["C12"] = C12 }

func segStrings(maxSeg int) []string {
	alpha := []string{"a", "b", "*", ""}
	var out []string
	var gen func(cur []string)
	gen = func(cur []string) {
		if len(cur) > 0 {
			out = append(out, strings.Join(cur, "."))
		}
		if len(cur) == maxSeg {
			return
		}
		for _, a := range alpha {
			gen(append(cur, a))
		}
	}
	gen(nil)
	return out
}

var implScope = map[string]fosite.ScopeStrategy{"wildcard": fosite.WildcardScopeStrategy, "exact": fosite.ExactScopeStrategy, "hierarchic": fosite.HierarchicScopeStrategy}

func C12(c *run.Ctx) {
	c.Need("c12_strategy_decisions", 1)
	c.Need("c12_out_of_policy_refused", 1)
	c.Need("c12_in_policy_accepted", 1)
	maxSeg := 3
	if !c.Quick() {
		maxSeg = 6
	}
	c.Exhaustive = true
	strs := segStrings(maxSeg)
	idx := 0
	cmp := func(strategy string, hay []string, needle string) {
		want := spec.Scope(strategy, hay, needle)
		got := implScope[strategy](hay, needle)
		c.Count("c12_strategy_decisions", 1)
		c.DisjointN++
		c.Eval(1)
		if want == spec.Unknown {
			c.Unspecified("scope-undocumented-empty-segments")
			return
		}
		if (want == spec.Yes) != got {
			c.Violate(run.Violation{Kind: "strategy-decision", Key: fmt.Sprintf("strategy-decision %s want=%s", strategy, want),
				Detail: fmt.Sprintf("%s strategy: haystack %q needle %q: documented decision %s, implementation says %v", strategy, hay, needle, want, got)})
		}
	}
	for _, st := range []string{"wildcard", "exact", "hierarchic"} {
		for _, h := range strs {
			idx++
			if !c.Mine(idx) {
				continue
			}
			for _, n := range strs {
				cmp(st, []string{h}, n)
			}
		}
		// two-entry haystacks over a 20-string subset
		sub := strs
		if len(sub) > 20 {
			var s2 []string
			for i := 0; i < 20; i++ {
				s2 = append(s2, strs[(i*len(strs))/20])
			}
			sub = s2
		}
		for _, h1 := range sub {
			for _, h2 := range sub {
				idx++
				if !c.Mine(idx) {
					continue
				}
				for _, n := range strs {
					cmp(st, []string{h1, h2}, n)
				}
			}
		}
	}
	// audience strategies: all pairs
	var urls []string
	for _, sch := range []string{"http", "https"} {
		for _, host := range []string{"api.example", "API.example", "api.example:8443", "rs.example"} {
			for _, path := range []string{"", "/", "/v1", "/v1/", "/v1/users", "/v10", "/v1//x", "/v"} {
				urls = append(urls, sch+"://"+host+path)
			}
		}
	}
	urls = append(urls, "api.example/v1", "/v1", "https://", "%zz", "urn:thing:v1", "https://api.example/v1?x=1", "https://api.example/v1#f")
	for ai, a := range urls {
		if !c.Mine(ai) {
			continue
		}
		for _, r := range urls {
			for _, st := range []string{"default", "exact"} {
				want := spec.Audience(st, []string{a}, []string{r})
				var err error
				if st == "exact" {
					err = fosite.ExactAudienceMatchingStrategy([]string{a}, []string{r})
				} else {
					err = fosite.DefaultAudienceMatchingStrategy([]string{a}, []string{r})
				}
				c.Count("c12_strategy_decisions", 1)
				c.DisjointN++
				c.Eval(1)
				if want == spec.Unknown {
					c.Unspecified("audience-not-an-absolute-url")
					continue
				}
				if (want == spec.Yes) != (err == nil) {
					c.Violate(run.Violation{Kind: "strategy-decision", Key: fmt.Sprintf("strategy-decision audience-%s want=%s", st, want),
						Detail: fmt.Sprintf("audience strategy %s: allowed %q requested %q: documented %s, implementation error=%v", st, a, r, want, err)})
				}
			}
		}
		// lists: every requested audience must be covered
		for _, r2 := range []string{"https://api.example/v1/users", "https://evil.example/"} {
			for _, st := range []string{"default", "exact"} {
				req := []string{a, r2}
				want := spec.Audience(st, []string{a, "https://api.example/v1"}, req)
				var err error
				if st == "exact" {
					err = fosite.ExactAudienceMatchingStrategy([]string{a, "https://api.example/v1"}, req)
				} else {
					err = fosite.DefaultAudienceMatchingStrategy([]string{a, "https://api.example/v1"}, req)
				}
				c.Eval(1)
				if want != spec.Unknown && (want == spec.Yes) != (err == nil) {
					c.Violate(run.Violation{Kind: "strategy-decision", Key: fmt.Sprintf("strategy-decision audience-list-%s want=%s", st, want),
						Detail: fmt.Sprintf("audience strategy %s: allowed [%q https://api.example/v1] requested %q: documented %s, implementation error=%v", st, a, req, want, err)})
				}
			}
		}
	}
	c12Confinement(c)
}

// c12Confinement drives every flow with in-policy and out-of-policy scope / audience requests.
func c12Confinement(c *run.Ctx) {
	keys := world.GetKeys()
	regs := map[string][]string{
		"wildcard":   {"openid", "offline", "photos.*", "docs.*.read", "fosite"},
		"hierarchic": {"openid", "offline", "photos", "docs.a", "fosite"},
		"exact":      {"openid", "offline", "photos", "docs.a.read", "fosite"},
	}
	needles := []string{"fosite", "photos", "photos.read", "photos.read.own", "photos..delete", "photos.", "photo", "photosx", "docs.a.read", "docs.a.write", "docs.read", "docs.a", "docs..read",
		"fosite.x", "fosit", "*", "photos.*", "docs.*.read", "docs.*", "admin", "openid.x", "Fosite", "photos.*.x", ".photos", "docs.a.read.more"}
	regAud := []string{"https://api.example/v1", "https://rs.example"}
	auds := []string{"https://api.example/v1", "https://api.example/v1/", "https://api.example/v1/users", "https://rs.example/anything", "https://api.example/v10", "https://api.example/",
		"http://api.example/v1", "https://api.example:8443/v1", "https://evil.example/v1", "https://api.example.evil/v1", "https://API.example/v1", "https://api.example/v", "https://api.example/v1x/y"}
	flows := []string{"authorize-code", "authorize-implicit", "authorize-hybrid", "client_credentials", "password", "device", "par", "jwt_bearer"}
	ci := 0
	for _, sst := range []string{"wildcard", "hierarchic", "exact"} {
		for _, ast := range []string{"default", "exact"} {
			w := world.New(world.Opts{JWTAccess: (ci % 2) == 1, Cfg: func(cfg *fosite.Config) {
				cfg.ScopeStrategy = implScope[sst]
				if ast == "exact" {
					cfg.AudienceMatchingStrategy = fosite.ExactAudienceMatchingStrategy
				}
				cfg.RefreshTokenScopes = []string{}
			}})
			w.AddClient(world.ClientSpec{ID: "c12", Secret: "s12", RedirectURIs: []string{"https://c12.example/cb"}, GrantTypes: world.AllGrants, ResponseTypes: world.AllResponseTypes, Scopes: regs[sst], Audience: regAud})
			// the bearer key's registration is narrower than the client's
			keyScopes := regs[sst][2:4]
			w.AddBearerKey("issuer-12", "svc-12", "bk12", &keys.ClientRSA[1].PublicKey, "RS256", keyScopes)
			a := world.Basic("c12", "s12")
			for fi, flow := range flows {
				ci++
				if !c.Mine(ci) {
					continue
				}
				type probe struct {
					scope string
					aud   string
				}
				var probes []probe
				for _, n := range needles {
					probes = append(probes, probe{scope: n})
				}
				for _, au := range auds {
					probes = append(probes, probe{scope: "fosite", aud: au})
				}
				for _, p := range probes {
					reg := regs[sst]
					if flow == "jwt_bearer" {
						reg = keyScopes
					}
					sv := spec.Scope(sst, reg, p.scope)
					if flow == "jwt_bearer" && p.scope == "fosite" {
						sv = spec.Scope(sst, reg, "fosite")
					}
					av := spec.Yes
					if p.aud != "" && flow != "jwt_bearer" {
						av = spec.Audience(ast, regAud, []string{p.aud})
					}
					scopes := p.scope
					if strings.HasPrefix(flow, "authorize") && flow != "authorize-code" || flow == "par" && fi%2 == 0 {
						scopes = "openid " + p.scope
					}
					c12Polluted = ""
					accepted, tok, detail := c12Drive(w, flow, a, scopes, p.aud)
					if c12Polluted != "" {
						c.Violate(run.Violation{Kind: "token-request-widened-requested", Key: "token-request-widened-requested flow=" + flow, Detail: c12Polluted})
					}
					c.Case(fmt.Sprintf("confine flow=%s scope-strategy=%s aud-strategy=%s scope-covered=%s aud-covered=%s accepted=%v", flow, sst, ast, sv, av, accepted))
					switch {
					case sv == spec.Unknown || av == spec.Unknown:
						c.Unspecified("undocumented-input")
					case sv == spec.No || av == spec.No:
						c.Count("c12_out_of_policy_refused", 1)
						if accepted {
							c.Violate(run.Violation{Kind: "out-of-policy-accepted", Key: fmt.Sprintf("out-of-policy-accepted flow=%s scope=%s aud=%s", flow, sv, av),
								Detail: fmt.Sprintf("flow %s under %s/%s accepted scope %q audience %q; registration scopes %q audience %q", flow, sst, ast, p.scope, p.aud, reg, regAud)})
						}
					default:
						if accepted {
							c.Count("c12_in_policy_accepted", 1)
							if tok != "" {
								in := w.IntrospectAPI(tok, fosite.AccessToken)
								if !in.Active {
									c.Violate(run.Violation{Kind: "in-policy-token-inactive", Key: "in-policy-token-inactive " + flow, Detail: detail})
								} else {
									want := strings.Fields(scopes)
									if !sameStrings(in.AR.GetGrantedScopes(), want) {
										c.Violate(run.Violation{Kind: "token-scope-not-granted", Key: "token-scope-not-granted " + flow, Detail: fmt.Sprintf("token scopes %v, granted %v", in.AR.GetGrantedScopes(), want)})
									}
									if p.aud != "" && flow != "jwt_bearer" && !sameStrings(in.AR.GetGrantedAudience(), []string{p.aud}) {
										c.Violate(run.Violation{Kind: "token-audience-not-granted", Key: "token-audience-not-granted " + flow, Detail: fmt.Sprintf("token audience %v, granted %v", in.AR.GetGrantedAudience(), p.aud)})
									}
								}
							}
						} else {
							c.Count("c12_in_policy_refused:"+flow, 1)
						}
					}
				}
			}
		}
	}
	c.Sample(map[string]interface{}{"confinement_needles": needles[:8], "audiences": auds[:5], "flows": flows})
	c12PartialConsent(c)
}

// c12PartialConsent: the resource owner grants less than was requested (all of it inside the client's policy);
// tokens from the authorization endpoint, from the code exchange and from a refresh carry exactly what was granted.
// c12RefreshAfterReregistration: the refresh flow under every strategy - once the client's registration no longer covers a
// scope or an audience of the grant (the record is replaced, or edited in place), a refresh is not accepted; while it still
// covers everything, it is.
func c12RefreshAfterReregistration(c *run.Ctx) {
	if !c.Mine(6) && c.NShards > 6 {
		return
	}
	for _, sst := range []string{"wildcard", "hierarchic", "exact"} {
		for _, edit := range []string{"none", "drop-scope", "drop-audience", "narrow-audience-path"} {
			for _, replace := range []bool{true, false} {
				w := world.New(world.Opts{Cfg: func(cfg *fosite.Config) { cfg.ScopeStrategy = implScope[sst] }})
				scopes := map[string][]string{"wildcard": {"offline", "photos.*"}, "hierarchic": {"offline", "photos"}, "exact": {"offline", "photos.read"}}[sst]
				sp := world.ClientSpec{ID: "c12r", Secret: "s12r", RedirectURIs: []string{"https://c12r.example/cb"}, GrantTypes: world.AllGrants, ResponseTypes: world.AllResponseTypes,
					Scopes: scopes, Audience: []string{"https://api.example/v1", "https://rs.example"}}
				w.AddClient(sp)
				a := world.Basic("c12r", "s12r")
				t := w.Token(url.Values{"grant_type": {"password"}, "username": {world.UserName}, "password": {world.UserPass}, "scope": {"offline photos.read"}, "audience": {"https://api.example/v1/users"}}, a)
				if t.Err != nil || t.S("refresh_token") == "" {
					c.Inconcl("refresh-after-reregistration: no grant under " + sst + ": " + world.ErrDetail(t.Err))
					continue
				}
				nsp := sp
				switch edit {
				case "drop-scope":
					nsp.Scopes = []string{"offline"}
				case "drop-audience":
					nsp.Audience = []string{"https://rs.example"}
				case "narrow-audience-path":
					nsp.Audience = []string{"https://api.example/v1/users/me", "https://rs.example"}
				}
				if replace {
					w.Mem.Clients["c12r"] = nsp.Build()
				} else {
					dc := world.DC(w.Client("c12r"))
					dc.Scopes, dc.Audience = nsp.Scopes, nsp.Audience
				}
				r := w.Token(url.Values{"grant_type": {"refresh_token"}, "refresh_token": {t.S("refresh_token")}}, a)
				c.Case(fmt.Sprintf("refresh-after-reregistration strategy=%s edit=%s replaced=%v accepted=%v err=%s", sst, edit, replace, r.Err == nil, r.ErrName))
				c.Count("c12_refresh_after_reregistration", 1)
				if edit == "none" {
					if r.Err != nil {
						c.Count("c12_in_policy_refused:refresh", 1)
					}
					continue
				}
				c.Count("c12_out_of_policy_refused", 1)
				if r.Err == nil {
					c.Violate(run.Violation{Kind: "out-of-policy-accepted", Key: fmt.Sprintf("out-of-policy-accepted flow=refresh edit=%s", edit),
						Detail: fmt.Sprintf("strategy %s, registration %s (replaced=%v): the refresh was accepted although the registration no longer covers the grant (scopes %v audience %v)", sst, edit, replace, nsp.Scopes, nsp.Audience)})
				}
			}
		}
	}
}

// c12PARForeignPolicy: a client authenticated at the push endpoint cannot borrow another client's policy by naming it in a
// (repeated) client_id parameter: a scope or audience only the OTHER registration covers is not accepted from it.
func c12PARForeignPolicy(c *run.Ctx) {
	if !c.Mine(8) && c.NShards > 8 {
		return
	}
	for _, sst := range []string{"wildcard", "hierarchic", "exact"} {
		w := world.New(world.Opts{Cfg: func(cfg *fosite.Config) { cfg.ScopeStrategy = implScope[sst] }})
		w.AddClient(world.ClientSpec{ID: "high", Secret: "s-high", RedirectURIs: []string{"https://high.example/cb"}, GrantTypes: world.AllGrants, ResponseTypes: world.AllResponseTypes,
			Scopes: []string{"fosite", "admin"}, Audience: []string{"https://api.example/admin"}})
		w.AddClient(world.ClientSpec{ID: "low", Secret: "s-low", RedirectURIs: []string{"https://high.example/cb", "https://low.example/cb"}, GrantTypes: world.AllGrants, ResponseTypes: world.AllResponseTypes,
			Scopes: []string{"fosite"}, Audience: []string{"https://api.example/public"}})
		for _, ids := range [][]string{{"high"}, {"high", "low"}, {"low", "high"}} {
			for _, what := range []string{"scope", "audience"} {
				f := url.Values{"client_id": ids, "response_type": {"code"}, "state": {"state-0123456789"}, "redirect_uri": {"https://high.example/cb"}, "scope": {"fosite"}}
				if what == "scope" {
					f.Set("scope", "fosite admin")
				} else {
					f.Set("audience", "https://api.example/admin")
				}
				out := w.PAR(f, world.Basic("low", "s-low"))
				c.Case(fmt.Sprintf("par authenticated=low client_id=%v out-of-policy-%s strategy=%s accepted=%v err=%s", ids, what, sst, out.Err == nil, out.ErrName))
				c.Count("c12_out_of_policy_refused", 1)
				if out.Err == nil {
					c.Violate(run.Violation{Kind: "out-of-policy-accepted", Key: fmt.Sprintf("out-of-policy-accepted flow=par authenticated-client-borrows-policy client_id=%v %s", ids, what),
						Detail: fmt.Sprintf("client low (scopes [fosite]) pushed %s outside its registration by naming client_id=%v; request_uri %s", what, ids, out.S("request_uri"))})
				}
			}
		}
	}
}

func c12PartialConsent(c *run.Ctx) {
	c12RefreshAfterReregistration(c)
	c12PARForeignPolicy(c)
	if !c.Mine(5) && c.NShards > 5 {
		return
	}
	for vi, jwt := range []bool{false, true} {
		w := world.New(world.Opts{JWTAccess: jwt, Cfg: func(cfg *fosite.Config) { cfg.RefreshTokenScopes = []string{} }})
		w.AddClient(world.ClientSpec{ID: "c12p", Secret: "s12p", RedirectURIs: []string{"https://c12p.example/cb"}, GrantTypes: world.AllGrants, ResponseTypes: world.AllResponseTypes,
			Scopes: []string{"openid", "photos.*", "fosite"}, Audience: []string{"https://api.example/v1", "https://rs.example"}})
		a := world.Basic("c12p", "s12p")
		reqScopes := []string{"openid", "photos.read", "photos.write", "fosite"}
		reqAud := []string{"https://api.example/v1/users", "https://rs.example/x"}
		grScopes := []string{"openid", "photos.read"}
		grAud := []string{"https://rs.example/x"}
		check := func(where, tok string) {
			in := w.IntrospectAPI(tok, fosite.AccessToken)
			c.Case(fmt.Sprintf("partial-consent %s jwt=%v active=%v", where, jwt, in.Active))
			c.Count("c12_partial_consent_tokens", 1)
			if !in.Active {
				c.Violate(run.Violation{Kind: "in-policy-token-inactive", Key: "in-policy-token-inactive partial-consent " + where, Detail: "token inactive"})
				return
			}
			if !sameStrings(in.AR.GetGrantedScopes(), grScopes) {
				c.Violate(run.Violation{Kind: "token-scope-not-granted", Key: "token-scope-not-granted partial-consent " + where, Detail: fmt.Sprintf("token scopes %v, the resource owner granted %v (requested %v)", in.AR.GetGrantedScopes(), grScopes, reqScopes)})
			}
			if !sameStrings(in.AR.GetGrantedAudience(), grAud) {
				c.Violate(run.Violation{Kind: "token-audience-not-granted", Key: "token-audience-not-granted partial-consent " + where, Detail: fmt.Sprintf("token audience %v, the resource owner granted %v (requested %v)", in.AR.GetGrantedAudience(), grAud, reqAud)})
			}
			if _, cl, ok := world.DecodeJWT(tok); ok && jwt {
				// a JWT access token carries what was granted in its own claims, whatever the stored record says
				var aud, scp []string
				switch a := cl["aud"].(type) {
				case string:
					aud = []string{a}
				case []interface{}:
					for _, e := range a {
						aud = append(aud, fmt.Sprint(e))
					}
				}
				switch sc := cl["scp"].(type) {
				case []interface{}:
					for _, e := range sc {
						scp = append(scp, fmt.Sprint(e))
					}
				case string:
					scp = strings.Fields(sc)
				}
				if sc, ok := cl["scope"].(string); ok && len(scp) == 0 {
					scp = strings.Fields(sc)
				}
				c.Count("c12_jwt_claims_checked", 1)
				if !sameStrings(aud, grAud) {
					c.Violate(run.Violation{Kind: "token-audience-not-granted", Key: "token-audience-not-granted jwt-claims partial-consent " + where, Detail: fmt.Sprintf("the JWT access token's aud claim is %v, the resource owner granted %v (requested %v)", aud, grAud, reqAud)})
				}
				if !sameStrings(scp, grScopes) {
					c.Violate(run.Violation{Kind: "token-scope-not-granted", Key: "token-scope-not-granted jwt-claims partial-consent " + where, Detail: fmt.Sprintf("the JWT access token's scope claim is %v, the resource owner granted %v", scp, grScopes)})
				}
			}
		}
		for gi, rt := range []string{"code", "id_token token", "code token", "code id_token token", "code", "code token"} {
			if gi >= 4 {
				grAud = []string{} // audiences are requested (inside the policy) and the resource owner grants none of them
			}
			q := url.Values{"client_id": {"c12p"}, "response_type": {rt}, "state": {"state-0123456789"}, "nonce": {"nonce-0123456789"}, "redirect_uri": {"https://c12p.example/cb"},
				"scope": {strings.Join(reqScopes, " ")}, "audience": {strings.Join(reqAud, " ")}}
			cons := world.Consent{Scopes: grScopes, NoAud: true, ReqMut: func(ar fosite.AuthorizeRequester) {
				for _, x := range grAud {
					ar.GrantAudience(x)
				}
			}}
			viaPAR := vi == 1 && rt == "code"
			var out *world.AuthzOut
			if viaPAR {
				p := w.PAR(q, a)
				out = w.Authorize(url.Values{"client_id": {"c12p"}, "request_uri": {p.S("request_uri")}}, cons)
			} else {
				out = w.Authorize(q, cons)
			}
			if out.Err != nil {
				c.Inconcl("partial consent request refused: " + world.ErrDetail(out.Err))
				continue
			}
			if t := out.Params.Get("access_token"); t != "" {
				check("authorization-endpoint rt="+rt, t)
			}
			if code := out.Params.Get("code"); code != "" {
				tk := w.Token(url.Values{"grant_type": {"authorization_code"}, "code": {code}, "redirect_uri": {"https://c12p.example/cb"}}, a)
				if tk.Err == nil {
					check("code-exchange rt="+rt, tk.S("access_token"))
					if rtok := tk.S("refresh_token"); rtok != "" {
						rf := w.Token(url.Values{"grant_type": {"refresh_token"}, "refresh_token": {rtok}}, a)
						if rf.Err == nil {
							check("refresh rt="+rt, rf.S("access_token"))
						}
					}
				}
			}
		}
		// device flow: the user approves a subset of the requested scopes
		dv := w.Device(url.Values{"client_id": {"c12p"}, "scope": {"openid photos.read photos.write fosite"}}, a)
		if dv.Err == nil && w.DeviceDecide(dv.S("user_code"), true, "user-d", []string{"openid", "photos.read"}, false) == nil {
			tk := w.Token(url.Values{"grant_type": {"urn:ietf:params:oauth:grant-type:device_code"}, "device_code": {dv.S("device_code")}}, a)
			if tk.Err == nil {
				in := w.IntrospectAPI(tk.S("access_token"), fosite.AccessToken)
				c.Count("c12_partial_consent_tokens", 1)
				if in.Active && !sameStrings(in.AR.GetGrantedScopes(), []string{"openid", "photos.read"}) {
					c.Violate(run.Violation{Kind: "token-scope-not-granted", Key: "token-scope-not-granted partial-consent device", Detail: fmt.Sprintf("token scopes %v", in.AR.GetGrantedScopes())})
				}
			}
		}
	}
}

func sameStrings(a, b []string) bool {
	if len(a) != len(b) {
		return false
	}
	m := map[string]int{}
	for _, x := range a {
		m[x]++
	}
	for _, x := range b {
		m[x]--
	}
	for _, v := range m {
		if v != 0 {
			return false
		}
	}
	return true
}

// c12Redeem exchanges a code / device code while the token request itself names a scope and an audience outside the client's
// registration; the accepted request must still carry, as requested sets, exactly what the authorization request asked for.
var c12Polluted string

func c12Redeem(w *world.World, form url.Values, a world.Auth, scope, aud string) *world.Out {
	form.Set("scope", "admin c12.smuggled")
	form.Set("audience", "https://evil.example/v1")
	var rs, ra []string
	seen := false
	out := w.Token(form, a, func(ar fosite.AccessRequester) {
		seen = true
		rs = append([]string{}, ar.GetRequestedScopes()...)
		ra = append([]string{}, ar.GetRequestedAudience()...)
	})
	if seen && out.Err == nil {
		wantA := []string{}
		if aud != "" {
			wantA = []string{aud}
		}
		for _, x := range rs {
			if x == "admin" || x == "c12.smuggled" {
				c12Polluted = fmt.Sprintf("accepted token request carries requested scopes %v (authorization request asked for %q)", rs, scope)
			}
		}
		for _, x := range ra {
			if x == "https://evil.example/v1" && (len(wantA) == 0 || wantA[0] != x) {
				c12Polluted = fmt.Sprintf("accepted token request carries requested audience %v (authorization request asked for %v)", ra, wantA)
			}
		}
	}
	return out
}

// c12Drive runs one request of the given flow; returns whether the server accepted it, an access token if one was delivered.
func c12Drive(w *world.World, flow string, a world.Auth, scope, aud string) (bool, string, string) {
	q := url.Values{"client_id": {"c12"}, "state": {"state-0123456789"}, "nonce": {"nonce-0123456789"}, "redirect_uri": {"https://c12.example/cb"}, "scope": {scope}}
	if aud != "" {
		q.Set("audience", aud)
	}
	switch flow {
	case "authorize-code", "authorize-implicit", "authorize-hybrid":
		q.Set("response_type", map[string]string{"authorize-code": "code", "authorize-implicit": "id_token token", "authorize-hybrid": "code id_token token"}[flow])
		out := w.Authorize(q, world.Consent{})
		ok := out.Err == nil && (out.Params.Get("code") != "" || out.Params.Get("access_token") != "")
		tok := out.Params.Get("access_token")
		if ok && tok == "" {
			t := c12Redeem(w, url.Values{"grant_type": {"authorization_code"}, "code": {out.Params.Get("code")}, "redirect_uri": {"https://c12.example/cb"}}, a, scope, aud)
			tok = t.S("access_token")
		}
		return ok, tok, world.ErrDetail(out.Err)
	case "par":
		q.Set("response_type", "code")
		out := w.PAR(q, a)
		if out.Err != nil {
			return false, "", world.ErrDetail(out.Err)
		}
		az := w.Authorize(url.Values{"client_id": {"c12"}, "request_uri": {out.S("request_uri")}}, world.Consent{})
		ok := az.Err == nil && az.Params.Get("code") != ""
		tok := ""
		if ok {
			t := c12Redeem(w, url.Values{"grant_type": {"authorization_code"}, "code": {az.Params.Get("code")}, "redirect_uri": {"https://c12.example/cb"}}, a, scope, aud)
			tok = t.S("access_token")
		}
		return ok, tok, world.ErrDetail(az.Err)
	case "client_credentials":
		f := url.Values{"grant_type": {"client_credentials"}, "scope": {scope}}
		if aud != "" {
			f.Set("audience", aud)
		}
		out := w.Token(f, a)
		return out.Err == nil, out.S("access_token"), world.ErrDetail(out.Err)
	case "password":
		f := url.Values{"grant_type": {"password"}, "username": {world.UserName}, "password": {world.UserPass}, "scope": {scope}}
		if aud != "" {
			f.Set("audience", aud)
		}
		out := w.Token(f, a)
		return out.Err == nil, out.S("access_token"), world.ErrDetail(out.Err)
	case "device":
		f := url.Values{"client_id": {"c12"}, "scope": {scope}}
		if aud != "" {
			f.Set("audience", aud)
		}
		out := w.Device(f, a)
		if out.Err != nil {
			return false, "", world.ErrDetail(out.Err)
		}
		_ = w.DeviceDecide(out.S("user_code"), true, "user-d", nil, false)
		t := c12Redeem(w, url.Values{"grant_type": {"urn:ietf:params:oauth:grant-type:device_code"}, "device_code": {out.S("device_code")}}, a, scope, aud)
		return t.Err == nil, t.S("access_token"), world.ErrDetail(t.Err)
	case "jwt_bearer":
		keys := world.GetKeys()
		now := time.Now()
		as := world.SignJWT(keys.ClientRSA[1], "RS256", map[string]interface{}{"kid": "bk12"}, map[string]interface{}{"iss": "issuer-12", "sub": "svc-12", "aud": []string{world.TokenURL},
			"exp": now.Add(time.Hour).Unix(), "iat": now.Unix(), "jti": fmt.Sprintf("j12-%d-%s-%s", now.UnixNano(), scope, aud)})
		out := w.Token(url.Values{"grant_type": {"urn:ietf:params:oauth:grant-type:jwt-bearer"}, "assertion": {as}, "scope": {scope}}, a)
		return out.Err == nil, "", world.ErrDetail(out.Err)
	}
	return false, "", "unknown flow"
}
