package mon

import (
	"crypto/rsa"
	"encoding/json"
	"fmt"
	"math"
	"net/url"
	"strings"
	"sync"
	"sync/atomic"
	"time"

	"github.com/go-jose/go-jose/v3"

	"github.com/ory/fosite"

	"fverif/run"
	"fverif/world"
)

func init() {
	Registry["C15seq"] = c15seq
	Registry["C15conc"] = c15conc
}

func nextJTI(p string) string { return fmt.Sprintf("%s-%d", p, atomic.AddInt64(&jtiCounter, 1)) }

func c15World(cfgMut func(*fosite.Config)) *world.World {
	keys := world.GetKeys()
	w := world.New(world.Opts{Cfg: cfgMut})
	jw := &jose.JSONWebKeySet{Keys: []jose.JSONWebKey{
		{Key: &keys.ClientRSA[0].PublicKey, KeyID: "k0", Algorithm: "RS256", Use: "sig"},
		{Key: &keys.ClientEC[0].PublicKey, KeyID: "k1", Algorithm: "ES256", Use: "sig"},
	}}
	base := world.ClientSpec{Kind: "oidc", AuthMethod: "private_key_jwt", JWKS: jw, RedirectURIs: []string{"https://pk.example/cb"}, GrantTypes: world.AllGrants,
		ResponseTypes: world.AllResponseTypes, Scopes: []string{"fosite", "photos"}}
	a := base
	a.ID, a.AuthSigAlg = "pk-rs", "RS256"
	w.AddClient(a)
	b := base
	b.ID, b.AuthSigAlg = "pk-es", "ES256"
	w.AddClient(b)
	o := base
	o.ID, o.AuthSigAlg = "pk-other", "RS256"
	o.JWKS = &jose.JSONWebKeySet{Keys: []jose.JSONWebKey{{Key: &keys.ClientRSA[2].PublicKey, KeyID: "k0", Algorithm: "RS256", Use: "sig"}}}
	w.AddClient(o)
	w.AddBearerKey("iss-15", "svc-15", "bk", &keys.ClientRSA[1].PublicKey, "RS256", []string{"fosite", "photos.*"})
	w.AddBearerKey("iss-15", "svc-other", "bk", &keys.ClientRSA[2].PublicKey, "RS256", []string{"fosite"})
	w.AddBearerKey("iss-other", "svc-15", "bk2", &keys.ClientRSA[2].PublicKey, "RS256", []string{"fosite"})
	return w
}

type mut struct {
	name   string
	valid  bool // does the assertion still satisfy every requirement of the statement?
	unspec bool
	apply  func(cl map[string]interface{}, hd map[string]interface{}, sg *signSpec)
}

type signSpec struct {
	key      interface{}
	alg      string
	raw      func(hd, cl map[string]interface{}) string // overrides signing completely
	clientID string                                     // client_id form parameter ("" = absent)
}

func c15seq(c *run.Ctx) {
	c.Need("c15_invalid_rejected", 1)
	c.Need("c15_valid_accepted", 1)
	c.Need("c15_replays_rejected", 1)
	keys := world.GetKeys()
	now := func() time.Time { return time.Now() }
	// ---------- client assertions ----------
	caMuts := []mut{
		{"valid", true, false, func(cl, hd map[string]interface{}, sg *signSpec) {}},
		{"valid-no-kid", true, false, func(cl, hd map[string]interface{}, sg *signSpec) { delete(hd, "kid") }},
		{"valid-aud-list", true, false, func(cl, hd map[string]interface{}, sg *signSpec) {
			cl["aud"] = []string{"https://x.example", world.TokenURL}
		}},
		{"valid-client_id-param", true, false, func(cl, hd map[string]interface{}, sg *signSpec) { sg.clientID = "pk-rs" }},
		// far-future expiries: unexpired by any reading, so whatever the endpoint does with them, an accepted one is accepted once
		{"valid-exp-maxint64", true, true, func(cl, hd map[string]interface{}, sg *signSpec) { cl["exp"] = int64(math.MaxInt64) }},
		{"valid-exp-2^62", true, true, func(cl, hd map[string]interface{}, sg *signSpec) { cl["exp"] = int64(1) << 62 }},
		{"valid-exp-year-9999", true, false, func(cl, hd map[string]interface{}, sg *signSpec) { cl["exp"] = int64(253402300799) }},
		{"valid-exp-float", true, false, func(cl, hd map[string]interface{}, sg *signSpec) {
			cl["exp"] = float64(now().Add(90*time.Second).Unix()) + 0.5
		}},
		{"iss-absent", false, false, func(cl, hd map[string]interface{}, sg *signSpec) { delete(cl, "iss") }},
		{"iss-other-client", false, false, func(cl, hd map[string]interface{}, sg *signSpec) { cl["iss"] = "pk-other" }},
		{"iss-number", false, false, func(cl, hd map[string]interface{}, sg *signSpec) { cl["iss"] = 7 }},
		{"sub-absent", false, false, func(cl, hd map[string]interface{}, sg *signSpec) { delete(cl, "sub") }},
		{"sub-other-client", false, false, func(cl, hd map[string]interface{}, sg *signSpec) { cl["sub"] = "pk-other" }},
		{"sub-and-iss-other-client-own-key", false, false, func(cl, hd map[string]interface{}, sg *signSpec) { cl["sub"], cl["iss"] = "pk-other", "pk-other" }},
		{"client_id-param-other", false, false, func(cl, hd map[string]interface{}, sg *signSpec) { sg.clientID = "pk-other" }},
		{"aud-absent", false, false, func(cl, hd map[string]interface{}, sg *signSpec) { delete(cl, "aud") }},
		{"aud-other", false, false, func(cl, hd map[string]interface{}, sg *signSpec) { cl["aud"] = "https://evil.example/token" }},
		{"aud-list-without", false, false, func(cl, hd map[string]interface{}, sg *signSpec) {
			cl["aud"] = []string{"https://a.example", "https://b.example"}
		}},
		{"aud-prefix", false, false, func(cl, hd map[string]interface{}, sg *signSpec) { cl["aud"] = world.TokenURL + "/" }},
		{"aud-issuer-only", false, false, func(cl, hd map[string]interface{}, sg *signSpec) { cl["aud"] = world.Issuer }},
		{"aud-number", false, false, func(cl, hd map[string]interface{}, sg *signSpec) { cl["aud"] = 5 }},
		{"exp-absent", false, false, func(cl, hd map[string]interface{}, sg *signSpec) { delete(cl, "exp") }},
		{"exp-past", false, false, func(cl, hd map[string]interface{}, sg *signSpec) { cl["exp"] = now().Add(-time.Hour).Unix() }},
		{"exp-1s-ago", false, false, func(cl, hd map[string]interface{}, sg *signSpec) { cl["exp"] = now().Add(-time.Second).Unix() }},
		{"exp-now", false, true, func(cl, hd map[string]interface{}, sg *signSpec) { cl["exp"] = now().Unix() }},
		{"exp-string", false, true, func(cl, hd map[string]interface{}, sg *signSpec) { cl["exp"] = fmt.Sprint(now().Add(time.Hour).Unix()) }},
		{"exp-bool", false, false, func(cl, hd map[string]interface{}, sg *signSpec) { cl["exp"] = true }},
		{"exp-past-fraction", false, false, func(cl, hd map[string]interface{}, sg *signSpec) {
			cl["exp"] = float64(now().Add(-time.Hour).Unix()) + 0.5
		}},
		{"exp-zero", false, false, func(cl, hd map[string]interface{}, sg *signSpec) { cl["exp"] = 0 }},
		{"exp-zero-fraction", false, false, func(cl, hd map[string]interface{}, sg *signSpec) { cl["exp"] = 0.5 }},
		{"exp-negative", false, false, func(cl, hd map[string]interface{}, sg *signSpec) { cl["exp"] = -1 }},
		{"jti-absent", false, false, func(cl, hd map[string]interface{}, sg *signSpec) { delete(cl, "jti") }},
		{"jti-empty", false, false, func(cl, hd map[string]interface{}, sg *signSpec) { cl["jti"] = "" }},
		{"jti-number", false, false, func(cl, hd map[string]interface{}, sg *signSpec) { cl["jti"] = 12345 }},
		{"nbf-future", false, true, func(cl, hd map[string]interface{}, sg *signSpec) { cl["nbf"] = now().Add(time.Hour).Unix() }},
		{"iat-future", false, true, func(cl, hd map[string]interface{}, sg *signSpec) { cl["iat"] = now().Add(time.Hour).Unix() }},
		{"alg-none", false, false, func(cl, hd map[string]interface{}, sg *signSpec) { sg.alg = "none" }},
		{"alg-hs256-pubkey", false, false, func(cl, hd map[string]interface{}, sg *signSpec) {
			sg.raw = func(h, c map[string]interface{}) string {
				h["alg"] = "HS256"
				return world.HS256Raw(h, c, keys.ClientRSA[0].PublicKey.N.Bytes())
			}
		}},
		{"alg-rs384-not-registered", false, false, func(cl, hd map[string]interface{}, sg *signSpec) { sg.alg = "RS384" }},
		{"alg-ps256-not-registered", false, false, func(cl, hd map[string]interface{}, sg *signSpec) { sg.alg = "PS256" }},
		{"alg-es256-for-rs-client", false, false, func(cl, hd map[string]interface{}, sg *signSpec) {
			sg.alg, sg.key = "ES256", keys.ClientEC[0]
			hd["kid"] = "k1"
		}},
		{"kid-unknown", false, false, func(cl, hd map[string]interface{}, sg *signSpec) { hd["kid"] = "nope" }},
		{"kid-of-other-key-type", false, false, func(cl, hd map[string]interface{}, sg *signSpec) { hd["kid"] = "k1" }},
		{"key-of-other-client", false, false, func(cl, hd map[string]interface{}, sg *signSpec) { sg.key = keys.ClientRSA[2] }},
		{"key-unregistered", false, false, func(cl, hd map[string]interface{}, sg *signSpec) { sg.key = keys.ServerRSA }},
		{"header-alg-lies", false, false, func(cl, hd map[string]interface{}, sg *signSpec) {
			sg.raw = func(h, c map[string]interface{}) string {
				t := world.SignJWT(keys.ClientRSA[0], "RS384", map[string]interface{}{"kid": "k0"}, c)
				p := strings.Split(t, ".")
				h["alg"] = "RS256"
				return world.RawJWT(h, c, p[2])
			}
		}},
		{"payload-tampered", false, false, func(cl, hd map[string]interface{}, sg *signSpec) {
			sg.raw = func(h, c map[string]interface{}) string {
				orig := map[string]interface{}{}
				for k, v := range c {
					orig[k] = v
				}
				orig["sub"], orig["iss"] = "pk-other", "pk-other"
				t := world.SignJWT(keys.ClientRSA[0], "RS256", map[string]interface{}{"kid": "k0"}, orig)
				p := strings.Split(t, ".")
				h["alg"] = "RS256"
				return world.RawJWT(h, c, p[2])
			}
		}},
	}
	rounds := c.N(16, 2000)
	for round := 0; round < rounds; round++ {
		r := caseRng(c, round)
		w := c15World(nil)
		type acc struct {
			form url.Values
			au   world.Auth
			desc string
		}
		var accepted []acc
		for mi, m := range caMuts {
			for _, target := range []string{"pk-rs", "pk-es"} {
				cl := map[string]interface{}{"iss": target, "sub": target, "aud": world.TokenURL, "exp": now().Add(time.Duration(30+r.Intn(3000)) * time.Second).Unix(), "iat": now().Unix(), "jti": nextJTI("ca")}
				hd := map[string]interface{}{"kid": "k0"}
				sg := &signSpec{key: keys.ClientRSA[0], alg: "RS256"}
				if target == "pk-es" {
					hd["kid"] = "k1"
					sg.key, sg.alg = keys.ClientEC[0], "ES256"
				}
				valid, unspec := m.valid, m.unspec
				if target == "pk-es" {
					switch m.name {
					case "alg-es256-for-rs-client": // for the ES client this is simply its registered algorithm
						valid = true
					case "kid-of-other-key-type", "valid-client_id-param", "alg-rs384-not-registered", "alg-ps256-not-registered", "header-alg-lies", "payload-tampered", "alg-hs256-pubkey":
						continue
					}
				}
				m.apply(cl, hd, sg)
				if _, isRSA := sg.key.(*rsa.PrivateKey); isRSA && strings.HasPrefix(sg.alg, "ES") {
					sg.key = keys.ClientEC[1] // a foreign EC key for the ES256 client
				}
				var as string
				if sg.raw != nil {
					as = sg.raw(hd, cl)
				} else {
					as = world.SignJWT(sg.key, sg.alg, hd, cl)
				}
				form := url.Values{"grant_type": {"client_credentials"}, "scope": {"fosite"}}
				au := world.Auth{Mode: "none", Assertion: as}
				if sg.clientID != "" {
					au = world.Auth{Mode: "id_only", ID: sg.clientID, Assertion: as}
				}
				// position in a history: some unrelated traffic first
				if r.Intn(3) == 0 {
					w.Token(url.Values{"grant_type": {"client_credentials"}}, world.Basic("conf-a", "secret-of-a"))
				}
				out := w.Token(form, au)
				ok := out.Err == nil
				c.Case(fmt.Sprintf("client-assertion client=%s mutation=%s valid=%v accepted=%v err=%s", target, m.name, valid, ok, out.ErrName))
				hist := []string{"client " + target, "mutation " + m.name, "assertion " + as, "result " + world.ErrDetail(out.Err)}
				switch {
				case unspec:
					c.Unspecified("client-assertion-" + m.name)
					if ok && m.valid {
						// whether it is accepted is open; accepted twice it must not be
						out2 := w.Token(form, au)
						c.Case(fmt.Sprintf("client-assertion (%s) replay accepted=%v err=%s", m.name, out2.Err == nil, out2.ErrName))
						c.Count("c15_replays_rejected", 1)
						if out2.Err == nil {
							c.Violate(run.Violation{Kind: "jti-accepted-twice", Key: "jti-accepted-twice client-assertion sequential (" + m.name + ")", Detail: "the same client assertion authenticated twice", History: hist})
						}
					}
				case !valid:
					c.Count("c15_invalid_rejected", 1)
					if ok {
						c.Violate(run.Violation{Kind: "invalid-assertion-accepted", Key: "invalid-assertion-accepted client-assertion " + m.name, Detail: "private_key_jwt authentication accepted although: " + m.name, History: hist})
					}
				default:
					if ok {
						c.Count("c15_valid_accepted", 1)
					} else {
						c.Count("c15_valid_refused:"+m.name+":"+out.ErrName, 1)
					}
					// replay of an accepted assertion, at a random later position
					if ok {
						for k := r.Intn(3); k > 0; k-- {
							w.Token(url.Values{"grant_type": {"client_credentials"}}, world.Basic("conf-b", "secret-of-b"))
						}
						out2 := w.Token(form, au)
						c.Case(fmt.Sprintf("client-assertion replay accepted=%v err=%s", out2.Err == nil, out2.ErrName))
						c.Count("c15_replays_rejected", 1)
						if out2.Err == nil {
							c.Violate(run.Violation{Kind: "jti-accepted-twice", Key: "jti-accepted-twice client-assertion sequential", Detail: "the same client assertion authenticated twice", History: hist})
						}
						accepted = append(accepted, acc{form, au, "client assertion " + target + " " + m.name})
					}
				}
				_ = mi
			}
		}
		// every assertion accepted earlier in this history (with earlier and later expiries than the ones accepted since)
		// is still unexpired: replaying it now must be refused
		for _, a := range accepted {
			out := w.Token(a.form, a.au)
			c.Case(fmt.Sprintf("client-assertion late-replay accepted=%v", out.Err == nil))
			c.Count("c15_replays_rejected", 1)
			if out.Err == nil {
				c.Violate(run.Violation{Kind: "jti-accepted-twice", Key: "jti-accepted-twice client-assertion late replay", Detail: "an assertion accepted earlier in the history was accepted again after other assertions had been presented: " + a.desc})
			}
		}
		// the second named by exp: whatever instant the assertion layer still honours an assertion at, the replay guard has to
		// remember its jti at that instant too (probed at a random offset inside the second of exp and at the instant itself)
		for _, target := range []string{"pk-rs", "pk-es"} {
			exp := now().Add(time.Duration(3+r.Intn(40)) * time.Second).Truncate(time.Second)
			cl := map[string]interface{}{"iss": target, "sub": target, "aud": world.TokenURL, "exp": exp.Unix(), "iat": now().Unix(), "jti": nextJTI("ca-edge")}
			key, alg, kid := interface{}(keys.ClientRSA[0]), "RS256", "k0"
			if target == "pk-es" {
				key, alg, kid = keys.ClientEC[0], "ES256", "k1"
			}
			as := world.SignJWT(key, alg, map[string]interface{}{"kid": kid}, cl)
			form := url.Values{"grant_type": {"client_credentials"}, "scope": {"fosite"}}
			au := world.Auth{Mode: "none", Assertion: as}
			if out := w.Token(form, au); out.Err != nil {
				c.Count("c15_valid_refused:edge-first-use:"+out.ErrName, 1)
				continue
			}
			off := time.Duration(r.Intn(1000)) * time.Millisecond
			if r.Intn(4) == 0 {
				off = 0
			}
			world.Sleep(exp.Sub(now()) + off)
			out2 := w.Token(form, au)
			c.Case(fmt.Sprintf("client-assertion replay-in-the-second-of-exp offset-zero=%v accepted=%v err=%s", off == 0, out2.Err == nil, out2.ErrName))
			c.Count("c15_replays_rejected", 1)
			c.Count("c15_exp_second_replays", 1)
			if out2.Err == nil {
				c.Violate(run.Violation{Kind: "jti-accepted-twice", Key: "jti-accepted-twice client-assertion replay within the second of exp", Detail: fmt.Sprintf("an assertion used once was accepted again %s after the start of the second its exp names: it is still honoured as unexpired there, but its jti was already forgotten", off), History: []string{"client " + target, "assertion " + as, fmt.Sprintf("exp %d, replay at %s", exp.Unix(), now().Format(time.RFC3339Nano))}})
			}
		}
		c15Bearer(c, w, round)
	}
	c.Sample(map[string]interface{}{"client_assertion_mutations": len(caMuts), "rounds": rounds})
	c15JWKSURI(c)
}

// c15JWKSURI: clients that publish their keys at a jwks_uri, verified through fosite's shipped JWKS fetcher (with its cache)
// over a stub transport. A client assertion is accepted only if signed by a key of the client it names, also when another
// client's key set sits at a look-alike location or was fetched first, and not by a key the client has retired once the server
// has seen the new key set.
func c15JWKSURI(c *run.Ctx) {
	if !c.Mine(2) && c.NShards > 2 {
		return
	}
	keys := world.GetKeys()
	locs := [][2]string{
		{"https://keys.example/jwks.json?tenant=a", "https://keys.example/jwks.json?tenant=b"},
		{"https://keys.example/a/jwks.json", "https://keys.example/b/jwks.json"},
		{"https://keys.example/jwks.json", "https://keys.example/jwks.json#b"},
		{"https://keys.example/jwks.json?tenant=a&v=1", "https://keys.example/jwks.json?v=1&tenant=b"},
		{"https://keys.example:443/jwks.json", "https://keys.example:8443/jwks.json"},
		{"https://keys.example/t/Ab12Cd/jwks.json", "https://keys.example/t/aB12cD/jwks.json"},
		{"https://keys.example/jwks.json?kid=Zx", "https://keys.example/jwks.json?kid=zX"},
	}
	for li, lp := range locs {
		for order := 0; order < 2; order++ {
			w := world.New(world.Opts{RealJWKS: true})
			for i, id := range []string{"ten-a", "ten-b"} {
				w.AddClient(world.ClientSpec{ID: id, Kind: "oidc", AuthMethod: "private_key_jwt", AuthSigAlg: "RS256", JWKSURI: lp[i], RedirectURIs: []string{"https://ten.example/cb"},
					GrantTypes: world.AllGrants, ResponseTypes: world.AllResponseTypes, Scopes: []string{"fosite"}})
			}
			set := func(pub interface{}, kid string) string {
				b, _ := json.Marshal(&jose.JSONWebKeySet{Keys: []jose.JSONWebKey{{Key: pub, KeyID: kid, Algorithm: "RS256", Use: "sig"}}})
				return string(b)
			}
			served := map[string]string{}
			strip := func(u string) string {
				if i := strings.Index(u, "#"); i >= 0 {
					return u[:i] // a fragment is never sent to the origin server
				}
				return u
			}
			served[strip(lp[0])] = set(&keys.ClientRSA[0].PublicKey, "k")
			sameOrigin := strip(lp[0]) == strip(lp[1])
			if !sameOrigin {
				served[strip(lp[1])] = set(&keys.ClientRSA[1].PublicKey, "k")
			}
			fetches := 0
			w.Fetch = func(u string) (int, string) {
				fetches++
				if b, ok := served[strip(u)]; ok {
					return 200, b
				}
				return 404, "not found"
			}
			var hist []string
			try := func(what, client string, key interface{}, kid string, must int) bool {
				h := map[string]interface{}{}
				if kid != "" {
					h["kid"] = kid
				}
				now := time.Now()
				as := world.SignJWT(key, "RS256", h, map[string]interface{}{"iss": client, "sub": client, "aud": world.TokenURL, "exp": now.Add(time.Hour).Unix(), "iat": now.Unix(), "jti": nextJTI("ju")})
				out := w.Token(url.Values{"grant_type": {"client_credentials"}, "scope": {"fosite"}}, world.Auth{Mode: "none", Assertion: as})
				w.JWKSSettle()
				ok := out.Err == nil
				hist = append(hist, fmt.Sprintf("%s => accepted=%v %s (fetches so far %d)", what, ok, out.ErrName, fetches))
				c.Case(fmt.Sprintf("jwks-uri locations=%d step=%q accepted=%v", li, what, ok))
				c.Count("c15_jwks_uri_steps", 1)
				if must == 0 {
					c.Count("c15_invalid_rejected", 1)
					if ok {
						c.Violate(run.Violation{Kind: "assertion-accepted", Key: "assertion-accepted jwks-uri: " + what, Detail: fmt.Sprintf("jwks_uri of ten-a %q, of ten-b %q", lp[0], lp[1]), History: append([]string(nil), hist...)})
					}
				} else if must == 1 && !ok {
					c.Count("c15_jwks_uri_rightful_refused", 1)
				} else if must == 1 {
					c.Count("c15_valid_accepted", 1)
				}
				return ok
			}
			ka, kb := keys.ClientRSA[0], keys.ClientRSA[1]
			if sameOrigin {
				// both clients publish the very same document: nothing distinguishes their keys
				kb = ka
			}
			first, second, kf, ks := "ten-a", "ten-b", ka, kb
			if order == 1 {
				first, second, kf, ks = "ten-b", "ten-a", kb, ka
			}
			try(first+" authenticates with its own key", first, kf, "k", 1)
			if !sameOrigin {
				try("assertion naming "+second+" signed with the key of "+first, second, kf, "k", 0)
				try("assertion naming "+second+" signed with the key of "+first+", no kid", second, kf, "", 0)
			}
			try(second+" authenticates with its own key", second, ks, "k", 1)
			if !sameOrigin {
				try("assertion naming "+first+" signed with the key of "+second, first, ks, "k", 0)
				try("assertion naming "+first+" signed with the key of "+second+", no kid", first, ks, "", 0)
				// ten-a rotates to a third key under a new kid
				served[strip(lp[0])] = set(&keys.ClientRSA[2].PublicKey, "k-next")
				if try("ten-a authenticates with its new key after rotation", "ten-a", keys.ClientRSA[2], "k-next", 1) {
					try("after the server has seen the rotation: assertion of ten-a signed with the retired key", "ten-a", ka, "k", 0)
					try("after the server has seen the rotation: assertion of ten-a signed with the retired key, no kid", "ten-a", ka, "", 0)
					try("ten-b still authenticates with its own key", "ten-b", kb, "k", 1)
				}
			}
			if li == 0 && order == 0 {
				c.Sample(map[string]interface{}{"jwks_uri_history": hist})
			}
		}
	}
}

func c15Bearer(c *run.Ctx, w0 *world.World, round int) {
	keys := world.GetKeys()
	r := caseRng(c, round+7777)
	type bm struct {
		name   string
		valid  bool
		unspec bool
		apply  func(cl, hd map[string]interface{}, sg *signSpec, form url.Values)
	}
	now := time.Now
	for _, cfg := range []struct {
		name           string
		jtiOpt, iatOpt bool
		maxDur         time.Duration
	}{{"default", false, false, 0}, {"jti-optional", true, false, 0}, {"iat-optional", false, true, 0}, {"both-optional-max-10m", true, true, 10 * time.Minute}} {
		w := c15World(func(c *fosite.Config) {
			c.GrantTypeJWTBearerIDOptional, c.GrantTypeJWTBearerIssuedDateOptional, c.GrantTypeJWTBearerMaxDuration = cfg.jtiOpt, cfg.iatOpt, cfg.maxDur
		})
		maxDur := cfg.maxDur
		if maxDur == 0 {
			maxDur = 24 * time.Hour
		}
		ms := []bm{
			{"valid", true, false, func(cl, hd map[string]interface{}, sg *signSpec, f url.Values) {}},
			{"valid-no-kid", true, false, func(cl, hd map[string]interface{}, sg *signSpec, f url.Values) { delete(hd, "kid") }},
			{"valid-aud-string", true, false, func(cl, hd map[string]interface{}, sg *signSpec, f url.Values) { cl["aud"] = world.TokenURL }},
			{"valid-scope-wildcard-covered", true, false, func(cl, hd map[string]interface{}, sg *signSpec, f url.Values) { f.Set("scope", "photos.read fosite") }},
			{"valid-exp-at-max", true, false, func(cl, hd map[string]interface{}, sg *signSpec, f url.Values) { cl["exp"] = now().Add(maxDur).Unix() }},
			{"iss-absent", false, false, func(cl, hd map[string]interface{}, sg *signSpec, f url.Values) { delete(cl, "iss") }},
			{"sub-absent", false, false, func(cl, hd map[string]interface{}, sg *signSpec, f url.Values) { delete(cl, "sub") }},
			{"iss-unregistered", false, false, func(cl, hd map[string]interface{}, sg *signSpec, f url.Values) { cl["iss"] = "iss-nobody" }},
			{"sub-of-other-key", false, false, func(cl, hd map[string]interface{}, sg *signSpec, f url.Values) { cl["sub"] = "svc-other" }},
			{"iss-of-other-key", false, false, func(cl, hd map[string]interface{}, sg *signSpec, f url.Values) {
				cl["iss"] = "iss-other"
				hd["kid"] = "bk2"
			}},
			{"key-of-other-subject", false, false, func(cl, hd map[string]interface{}, sg *signSpec, f url.Values) { sg.key = keys.ClientRSA[2] }},
			{"key-unregistered", false, false, func(cl, hd map[string]interface{}, sg *signSpec, f url.Values) { sg.key = keys.ServerRSA }},
			{"key-unregistered-no-kid", false, false, func(cl, hd map[string]interface{}, sg *signSpec, f url.Values) {
				sg.key = keys.ServerRSA
				delete(hd, "kid")
			}},
			{"kid-unknown", false, false, func(cl, hd map[string]interface{}, sg *signSpec, f url.Values) { hd["kid"] = "nope" }},
			{"alg-none", false, false, func(cl, hd map[string]interface{}, sg *signSpec, f url.Values) { sg.alg = "none" }},
			{"alg-hs256-pubkey", false, false, func(cl, hd map[string]interface{}, sg *signSpec, f url.Values) {
				sg.raw = func(h, c map[string]interface{}) string {
					h["alg"] = "HS256"
					return world.HS256Raw(h, c, keys.ClientRSA[1].PublicKey.N.Bytes())
				}
			}},
			{"aud-absent", false, false, func(cl, hd map[string]interface{}, sg *signSpec, f url.Values) { delete(cl, "aud") }},
			{"aud-other", false, false, func(cl, hd map[string]interface{}, sg *signSpec, f url.Values) {
				cl["aud"] = []string{"https://evil.example/token"}
			}},
			{"aud-prefix", false, false, func(cl, hd map[string]interface{}, sg *signSpec, f url.Values) { cl["aud"] = world.TokenURL + "x" }},
			{"exp-absent", false, false, func(cl, hd map[string]interface{}, sg *signSpec, f url.Values) { delete(cl, "exp") }},
			{"exp-past", false, false, func(cl, hd map[string]interface{}, sg *signSpec, f url.Values) {
				cl["exp"] = now().Add(-time.Minute).Unix()
			}},
			{"exp-1s-ago", false, false, func(cl, hd map[string]interface{}, sg *signSpec, f url.Values) {
				cl["exp"] = now().Add(-time.Second).Unix()
			}},
			{"exp-now", false, true, func(cl, hd map[string]interface{}, sg *signSpec, f url.Values) { cl["exp"] = now().Unix() }},
			{"exp-past-fraction", false, false, func(cl, hd map[string]interface{}, sg *signSpec, f url.Values) {
				cl["exp"] = float64(now().Add(-time.Hour).Unix()) + 0.5
			}},
			{"exp-zero", false, false, func(cl, hd map[string]interface{}, sg *signSpec, f url.Values) { cl["exp"] = 0 }},
			{"exp-zero-fraction", false, false, func(cl, hd map[string]interface{}, sg *signSpec, f url.Values) { cl["exp"] = 0.5 }},
			{"exp-beyond-max", false, false, func(cl, hd map[string]interface{}, sg *signSpec, f url.Values) {
				cl["exp"] = now().Add(maxDur + time.Minute).Unix()
			}},
			{"exp-beyond-max-no-iat", !true, !cfg.iatOpt, func(cl, hd map[string]interface{}, sg *signSpec, f url.Values) {
				cl["exp"] = now().Add(maxDur + time.Minute).Unix()
				delete(cl, "iat")
			}},
			{"exp-beyond-max-iat-postdated", false, false, func(cl, hd map[string]interface{}, sg *signSpec, f url.Values) {
				// an issue time in the future must not move the window: exp is still far beyond now + maximum
				cl["exp"] = now().Add(10 * maxDur).Unix()
				cl["iat"] = now().Add(10*maxDur - time.Minute).Unix()
			}},
			{"exp-far-iat-backdated", false, true, func(cl, hd map[string]interface{}, sg *signSpec, f url.Values) {
				cl["exp"] = now().Add(maxDur / 2).Unix()
				cl["iat"] = now().Add(-maxDur).Unix()
			}},
			{"nbf-future", false, false, func(cl, hd map[string]interface{}, sg *signSpec, f url.Values) {
				cl["nbf"] = now().Add(time.Minute).Unix()
			}},
			{"nbf-now", false, true, func(cl, hd map[string]interface{}, sg *signSpec, f url.Values) { cl["nbf"] = now().Unix() }},
			{"nbf-past", true, false, func(cl, hd map[string]interface{}, sg *signSpec, f url.Values) {
				cl["nbf"] = now().Add(-time.Minute).Unix()
			}},
			{"iat-absent", cfg.iatOpt, false, func(cl, hd map[string]interface{}, sg *signSpec, f url.Values) { delete(cl, "iat") }},
			{"jti-absent", cfg.jtiOpt, false, func(cl, hd map[string]interface{}, sg *signSpec, f url.Values) { delete(cl, "jti") }},
			{"jti-empty", cfg.jtiOpt, false, func(cl, hd map[string]interface{}, sg *signSpec, f url.Values) { cl["jti"] = "" }},
			{"scope-not-covered", false, false, func(cl, hd map[string]interface{}, sg *signSpec, f url.Values) { f.Set("scope", "fosite admin") }},
			{"scope-near-miss", false, false, func(cl, hd map[string]interface{}, sg *signSpec, f url.Values) { f.Set("scope", "photos") }},
			{"payload-tampered", false, false, func(cl, hd map[string]interface{}, sg *signSpec, f url.Values) {
				sg.raw = func(h, c map[string]interface{}) string {
					orig := map[string]interface{}{}
					for k, v := range c {
						orig[k] = v
					}
					orig["exp"] = now().Add(time.Minute).Unix()
					t := world.SignJWT(keys.ClientRSA[1], "RS256", map[string]interface{}{"kid": "bk"}, orig)
					h["alg"] = "RS256"
					return world.RawJWT(h, c, strings.Split(t, ".")[2])
				}
				cl["exp"] = now().Add(5 * time.Minute).Unix()
			}},
		}
		var acceptedB []url.Values
		for _, m := range ms {
			cl := map[string]interface{}{"iss": "iss-15", "sub": "svc-15", "aud": []string{world.TokenURL}, "exp": now().Add(time.Duration(30+r.Intn(500)) * time.Second).Unix(), "iat": now().Unix(), "jti": nextJTI("ba")}
			hd := map[string]interface{}{"kid": "bk"}
			sg := &signSpec{key: keys.ClientRSA[1], alg: "RS256"}
			form := url.Values{"grant_type": {"urn:ietf:params:oauth:grant-type:jwt-bearer"}, "scope": {"fosite"}}
			m.apply(cl, hd, sg, form)
			var as string
			if sg.raw != nil {
				as = sg.raw(hd, cl)
			} else {
				as = world.SignJWT(sg.key, sg.alg, hd, cl)
			}
			form.Set("assertion", as)
			out := w.Token(form, world.Basic("conf-a", "secret-of-a"))
			ok := out.Err == nil
			c.Case(fmt.Sprintf("jwt-bearer cfg=%s mutation=%s valid=%v unspec=%v accepted=%v err=%s", cfg.name, m.name, m.valid, m.unspec, ok, out.ErrName))
			hist := []string{"config " + cfg.name, "mutation " + m.name, "assertion " + as, "scope " + form.Get("scope"), "result " + world.ErrDetail(out.Err)}
			switch {
			case m.unspec:
				c.Unspecified("jwt-bearer-" + m.name)
			case !m.valid:
				c.Count("c15_invalid_rejected", 1)
				if ok {
					c.Violate(run.Violation{Kind: "invalid-assertion-accepted", Key: "invalid-assertion-accepted jwt-bearer " + m.name + " cfg=" + cfg.name, Detail: "JWT bearer grant accepted although: " + m.name, History: hist})
				}
			default:
				if ok {
					c.Count("c15_valid_accepted", 1)
					if _, has := cl["jti"]; has && cl["jti"] != "" {
						out2 := w.Token(form, world.Basic("conf-a", "secret-of-a"))
						c.Case(fmt.Sprintf("jwt-bearer replay cfg=%s accepted=%v", cfg.name, out2.Err == nil))
						c.Count("c15_replays_rejected", 1)
						if out2.Err == nil {
							c.Violate(run.Violation{Kind: "jti-accepted-twice", Key: "jti-accepted-twice jwt-bearer sequential cfg=" + cfg.name, Detail: "the same JWT bearer assertion was accepted twice", History: hist})
						}
						acceptedB = append(acceptedB, form)
					}
				} else {
					c.Count("c15_valid_refused:"+m.name+":"+out.ErrName, 1)
				}
			}
		}
		for _, f := range acceptedB {
			out := w.Token(f, world.Basic("conf-a", "secret-of-a"))
			c.Case(fmt.Sprintf("jwt-bearer late-replay cfg=%s accepted=%v", cfg.name, out.Err == nil))
			c.Count("c15_replays_rejected", 1)
			if out.Err == nil {
				c.Violate(run.Violation{Kind: "jti-accepted-twice", Key: "jti-accepted-twice jwt-bearer late replay cfg=" + cfg.name, Detail: "a JWT bearer assertion accepted earlier in the history was accepted again after later-expiring assertions had been presented"})
			}
		}
	}
	_ = w0
}

// c15conc: a jti is accepted at most once under every interleaving of the storage steps of 2 (exhaustive)
// or 3 (sampled) simultaneous presentations, and under free-running bursts.
func c15conc(c *run.Ctx) {
	c.Need("c15_schedules", 1)
	keys := world.GetKeys()
	kinds := []string{"client-assertion", "jwt-bearer"}
	caseI := 0
	for _, kind := range kinds {
		for _, nOps := range []int{2, 3} {
			caseI++
			if !c.Mine(caseI) {
				continue
			}
			limit := 4000
			if c.Quick() {
				limit = 700
			}
			var prefix []int
			schedules := 0
			exhaustive := true
			seen := map[string]bool{}
			for {
				w := c15World(nil)
				now := time.Now()
				var form url.Values
				var au world.Auth
				if kind == "client-assertion" {
					as := world.SignJWT(keys.ClientRSA[0], "RS256", map[string]interface{}{"kid": "k0"}, map[string]interface{}{"iss": "pk-rs", "sub": "pk-rs", "aud": world.TokenURL, "exp": now.Add(time.Hour).Unix(), "jti": "the-one-jti"})
					form = url.Values{"grant_type": {"client_credentials"}, "scope": {"fosite"}}
					au = world.Auth{Mode: "none", Assertion: as}
				} else {
					as := world.SignJWT(keys.ClientRSA[1], "RS256", map[string]interface{}{"kid": "bk"}, map[string]interface{}{"iss": "iss-15", "sub": "svc-15", "aud": []string{world.TokenURL}, "exp": now.Add(time.Hour).Unix(), "iat": now.Unix(), "jti": "the-one-jti"})
					form = url.Values{"grant_type": {"urn:ietf:params:oauth:grant-type:jwt-bearer"}, "assertion": {as}, "scope": {"fosite"}}
					au = world.Basic("conf-a", "secret-of-a")
				}
				results := make([]*world.Out, nOps)
				var ops []func()
				for i := 0; i < nOps; i++ {
					i := i
					ops = append(ops, func() { results[i] = w.Token(form, au) })
				}
				s := &world.Sched{W: w, Skip: map[string]bool{"GetClient": true, "GetPublicKey": true, "GetPublicKeys": true, "GetPublicKeyScopes": true}}
				s.Run(ops, prefix)
				if s.Hung {
					c.Inconcl("scheduler watchdog fired for " + kind)
					break
				}
				schedules++
				tr := strings.Join(s.Trace, " ")
				if !seen[tr] {
					seen[tr] = true
					c.Distinct["schedule "+kind+" "+tr]++
				}
				okN := 0
				for _, o := range results {
					if o != nil && o.Err == nil {
						okN++
					}
				}
				c.Eval(1)
				c.Count("c15_schedules", 1)
				c.Count(fmt.Sprintf("c15_successes_per_jti=%d", okN), 1)
				if okN > 1 {
					c.Violate(run.Violation{Kind: "jti-accepted-twice", Key: "jti-accepted-twice " + kind + " concurrent", Detail: fmt.Sprintf("%d of %d simultaneous presentations of one assertion were accepted", okN, nOps), History: s.Trace})
				}
				if schedules == 1 {
					c.Sample(map[string]interface{}{"kind": kind, "presentations": nOps, "first_schedule": s.Trace})
				}
				prefix = world.NextPrefix(s.Choices, s.Taken)
				if prefix == nil {
					break
				}
				if schedules >= limit {
					exhaustive = false
					break
				}
			}
			c.Count(fmt.Sprintf("c15_schedules_%s_%d_exhaustive=%v", kind, nOps, exhaustive), int64(schedules))
		}
	}
	// free-running bursts from a barrier
	if c.Mine(0) || c.NShards == 1 {
		bursts := 30
		if !c.Quick() {
			bursts = 600
		}
		for b := 0; b < bursts; b++ {
			kind := kinds[b%2]
			w := c15World(nil)
			now := time.Now()
			var form url.Values
			var au world.Auth
			if kind == "client-assertion" {
				as := world.SignJWT(keys.ClientRSA[0], "RS256", map[string]interface{}{"kid": "k0"}, map[string]interface{}{"iss": "pk-rs", "sub": "pk-rs", "aud": world.TokenURL, "exp": now.Add(time.Hour).Unix(), "jti": "burst-jti"})
				form = url.Values{"grant_type": {"client_credentials"}, "scope": {"fosite"}}
				au = world.Auth{Mode: "none", Assertion: as}
			} else {
				as := world.SignJWT(keys.ClientRSA[1], "RS256", map[string]interface{}{"kid": "bk"}, map[string]interface{}{"iss": "iss-15", "sub": "svc-15", "aud": []string{world.TokenURL}, "exp": now.Add(time.Hour).Unix(), "iat": now.Unix(), "jti": "burst-jti"})
				form = url.Values{"grant_type": {"urn:ietf:params:oauth:grant-type:jwt-bearer"}, "assertion": {as}, "scope": {"fosite"}}
				au = world.Basic("conf-a", "secret-of-a")
			}
			var wg sync.WaitGroup
			start := make(chan struct{})
			var okN int64
			for i := 0; i < 8; i++ {
				wg.Add(1)
				go func() {
					defer wg.Done()
					<-start
					if out := w.Token(form, au); out.Err == nil {
						atomic.AddInt64(&okN, 1)
					}
				}()
			}
			close(start)
			wg.Wait()
			c.Eval(1)
			c.Count(fmt.Sprintf("c15_burst_successes=%d", okN), 1)
			if okN > 1 {
				c.Violate(run.Violation{Kind: "jti-accepted-twice", Key: "jti-accepted-twice " + kind + " burst", Detail: fmt.Sprintf("%d of 8 simultaneous presentations accepted", okN)})
			}
		}
	}
}
