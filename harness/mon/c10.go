package mon

import (
	"context"
	"encoding/base64"
	"fmt"
	"net/http"
	"net/url"
	"strings"
	"sync/atomic"
	"time"

	"github.com/ory/fosite"

	"fverif/run"
	"fverif/world"
)

func init() { Registry["C10"] = C10 }

type c10Reg struct {
	Name    string
	Public  bool
	Kind    string // plain | oidc
	Method  string
	Rotated int
}

const (
	c10Secret = "cur&rent:sec%ret +1"
	c10Rot1   = "rotated-secret-one"
	c10Rot2   = "rotated/secret=two"
)

func c10Regs() []c10Reg {
	return []c10Reg{
		{"public-plain", true, "plain", "", 0},
		{"public-oidc-none", true, "oidc", "none", 0},
		{"public-oidc-basic", true, "oidc", "client_secret_basic", 0},
		{"conf-plain", false, "plain", "", 0},
		{"conf-plain-rot1", false, "plain", "", 1},
		{"conf-plain-rot2", false, "plain", "", 2},
		{"conf-oidc-basic", false, "oidc", "client_secret_basic", 1},
		{"conf-oidc-post", false, "oidc", "client_secret_post", 2},
		{"conf-oidc-pkjwt", false, "oidc", "private_key_jwt", 1},
		{"conf-oidc-none", false, "oidc", "none", 0},
		{"conf-oidc-secretjwt", false, "oidc", "client_secret_jwt", 1},
		{"conf-oidc-empty-method", false, "oidc", "", 0},
	}
}

type c10Transport struct {
	Name string
	Make func(id, secret string) world.Auth
}

func c10Transports() []c10Transport {
	return []c10Transport{
		{"basic", func(id, s string) world.Auth { return world.Basic(id, s) }},
		{"basic-unescaped", func(id, s string) world.Auth { return world.Auth{Mode: "basic", ID: id, Secret: s, NoEscape: true} }},
		{"post", func(id, s string) world.Auth { return world.Post(id, s) }},
		{"both", func(id, s string) world.Auth { return world.Auth{Mode: "both", ID: id, Secret: s} }},
		{"id-only", func(id, s string) world.Auth { return world.Public(id) }},
		// both transports present, the secret in ONE of them and junk in the other
		{"header-secret+body-junk", func(id, s string) world.Auth {
			return world.Auth{Mode: "both", ID: id, Secret: s, BodySecret: "junk-that-is-not-the-secret"}
		}},
		{"header-junk+body-secret", func(id, s string) world.Auth {
			return world.Auth{Mode: "both", ID: id, Secret: "junk-that-is-not-the-secret", BodySecret: s}
		}},
		{"basic-names-client+body-secret", func(id, s string) world.Auth {
			// Authorization: Basic base64(id:) with an empty password, the secret travels in the body without client_id
			return world.Auth{Mode: "raw", RawHeader: "Basic " + base64.StdEncoding.EncodeToString([]byte(url.QueryEscape(id)+":")), BodySecret: s}
		}},
		{"query-string", func(id, s string) world.Auth { return world.Auth{Mode: "query", ID: id, Secret: s} }},
		{"nothing", func(id, s string) world.Auth { return world.Auth{Mode: "none"} }},
		{"malformed-basic-not-base64", func(id, s string) world.Auth { return world.Auth{Mode: "raw", RawHeader: "Basic !!!not-base64!!!"} }},
		{"malformed-basic-no-colon", func(id, s string) world.Auth {
			return world.Auth{Mode: "raw", RawHeader: "Basic " + base64.StdEncoding.EncodeToString([]byte(id+s))}
		}},
		{"bearer-header", func(id, s string) world.Auth { return world.Auth{Mode: "raw", RawHeader: "Bearer " + s} }},
		{"basic-bad-escape", func(id, s string) world.Auth {
			return world.Auth{Mode: "raw", RawHeader: "Basic " + base64.StdEncoding.EncodeToString([]byte(id+":%zz"+s))}
		}},
	}
}

// c10Decide is the independent decision written from the statement:
// 1 = must be processed in the client's name is allowed (proof given), 0 = must be rejected, -1 = unspecified.
func c10Decide(reg c10Reg, tr string, rel string, unknownClient bool) (int, string) {
	if unknownClient {
		return 0, "unknown-client"
	}
	switch tr {
	case "malformed-basic-not-base64", "malformed-basic-no-colon", "bearer-header", "nothing":
		return 0, "no-usable-credentials"
	case "basic-bad-escape":
		return 0, "malformed-header"
	}
	if reg.Public {
		if reg.Kind == "oidc" && reg.Method != "none" {
			return -1, "public-client-with-secret-method"
		}
		if tr == "id-only" || rel == "empty" {
			return 1, "public-client-identified"
		}
		return -1, "public-client-sending-a-secret"
	}
	// confidential: proof of the current or a rotated secret through a permitted transport
	goodSecret := rel == "current" || rel == "rotated"
	if tr == "id-only" {
		return 0, "confidential-without-secret"
	}
	if !goodSecret {
		return 0, "secret-" + rel
	}
	if tr == "basic-names-client+body-secret" {
		if reg.Kind == "plain" {
			return -1, "mixed-transport-plain-client"
		}
		// an OIDC client: neither the Basic transport (no secret in the header) nor the post transport (no client_id in the body) is complete
		return 0, "mixed-transport-not-a-permitted-method"
	}
	if tr == "query-string" {
		// neither the Basic header nor the request body: no registered method permits credentials in the request URI
		return 0, "credentials-in-request-uri"
	}
	if tr == "basic-unescaped" {
		// the secret contains characters that change under form-urlencoding: an unescaped header carries a different secret
		return -1, "unescaped-special-characters"
	}
	if reg.Kind == "plain" {
		if tr == "header-secret+body-junk" || tr == "header-junk+body-secret" {
			return -1, "both-transports-one-of-them-junk"
		}
		return 1, "plain-client-any-transport"
	}
	switch reg.Method {
	case "client_secret_basic":
		if tr == "basic" {
			return 1, "basic-permitted"
		}
		if tr == "both" || tr == "header-secret+body-junk" {
			return -1, "both-transports"
		}
		// header-junk+body-secret: the only proof of the secret travels in the body, which the method does not permit
		return 0, "transport-not-permitted"
	case "client_secret_post":
		if tr == "post" {
			return 1, "post-permitted"
		}
		if tr == "both" || tr == "header-junk+body-secret" {
			return -1, "both-transports"
		}
		// header-secret+body-junk: the only proof of the secret travels in the header, which the method does not permit
		return 0, "transport-not-permitted"
	case "":
		return -1, "oidc-client-without-method"
	}
	// private_key_jwt, none, client_secret_jwt: a shared secret is not a permitted proof
	return 0, "method-" + reg.Method + "-does-not-permit-secrets"
}

func C10(c *run.Ctx) {
	c.Need("c10_rejected", 1)
	c.Need("c10_processed", 1)
	keys := world.GetKeys()
	regs := c10Regs()
	trs := c10Transports()
	rels := []string{"current", "rotated", "wrong", "empty", "others"}
	endpoints := []string{"token:authorization_code", "token:authorization_code-used", "token:refresh_token", "token:client_credentials", "token:password", "token:device_code", "token:jwt-bearer", "token:jwt-bearer-skip", "revoke", "par", "device"}
	c.Exhaustive = true
	idx := 0
	for ri, reg := range regs {
		for _, jwt := range []bool{false, true} {
			idx++
			if !c.Mine(idx) {
				continue
			}
			skip := false
			w := world.New(world.Opts{JWTAccess: jwt, Cfg: func(cfg *fosite.Config) {}})
			sp := world.ClientSpec{ID: "t", Public: reg.Public, Kind: reg.Kind, AuthMethod: reg.Method, RedirectURIs: []string{"https://t.example/cb"}, GrantTypes: world.AllGrants,
				ResponseTypes: world.AllResponseTypes, Scopes: []string{"openid", "offline", "fosite"}, JWKS: world.PublicJWKS(nil, &keys.ClientRSA[0].PublicKey), AuthSigAlg: "RS256"}
			if !reg.Public {
				sp.Secret = c10Secret
				sp.Rotated = []string{c10Rot1, c10Rot2}[:reg.Rotated]
			}
			w.AddClient(sp)
			w.AddClient(world.ClientSpec{ID: "other", Secret: "secret-of-other", RedirectURIs: []string{"https://o.example/cb"}, GrantTypes: world.AllGrants, ResponseTypes: world.AllResponseTypes, Scopes: []string{"openid", "offline", "fosite"}})
			w.AddBearerKey("iss-10", "svc-10", "bk10", &keys.ClientRSA[1].PublicKey, "RS256", []string{"fosite"})
			// a way to authenticate as t legitimately (to mint live credentials)
			valid := func() world.Auth {
				switch {
				case reg.Public:
					return world.Public("t")
				case reg.Kind == "oidc" && reg.Method == "client_secret_post":
					return world.Post("t", c10Secret)
				case reg.Kind == "oidc" && reg.Method == "private_key_jwt":
					return world.Auth{Mode: "none", Assertion: clientAssertionFor("t", keys.ClientRSA[0], "k0")}
				}
				return world.Basic("t", c10Secret)
			}
			canAuth := !(reg.Kind == "oidc" && (reg.Method == "none" && !reg.Public || reg.Method == "client_secret_jwt" || reg.Public && reg.Method != "none"))
			mint := func(kind string) string {
				switch kind {
				case "code":
					az := w.Authorize(url.Values{"client_id": {"t"}, "response_type": {"code"}, "scope": {"offline fosite"}, "state": {"state-0123456789"}, "redirect_uri": {"https://t.example/cb"}}, world.Consent{})
					return az.Params.Get("code")
				case "refresh", "access":
					if !canAuth {
						return ""
					}
					az := w.Authorize(url.Values{"client_id": {"t"}, "response_type": {"code"}, "scope": {"offline fosite"}, "state": {"state-0123456789"}, "redirect_uri": {"https://t.example/cb"}}, world.Consent{})
					out := w.Token(url.Values{"grant_type": {"authorization_code"}, "code": {az.Params.Get("code")}, "redirect_uri": {"https://t.example/cb"}}, valid())
					if kind == "access" {
						return out.S("access_token")
					}
					return out.S("refresh_token")
				case "device":
					if !canAuth {
						return ""
					}
					dv := w.Device(url.Values{"client_id": {"t"}, "scope": {"offline"}}, valid())
					if dv.Err != nil {
						return ""
					}
					_ = w.DeviceDecide(dv.S("user_code"), true, "user-d", nil, false)
					return dv.S("device_code")
				}
				return ""
			}
			for _, tr := range trs {
				for _, rel := range rels {
					for _, unknown := range []bool{false, true} {
						if unknown && (rel != "current" || tr.Name == "nothing") {
							continue
						}
						secret := map[string]string{"current": c10Secret, "rotated": c10Rot1, "wrong": "wrong-secret", "empty": "", "others": "secret-of-other"}[rel]
						if rel == "rotated" && reg.Rotated == 0 {
							continue // no rotated secret registered: "rotated-secret-one" is simply wrong
						}
						id := "t"
						if unknown {
							id = "ghost"
						}
						want, why := c10Decide(reg, tr.Name, rel, unknown)
						for _, ep := range endpoints {
							w.Cfg.GrantTypeJWTBearerCanSkipClientAuth = ep == "token:jwt-bearer-skip"
							au := tr.Make(id, secret)
							var form url.Values
							var call func() *world.Out
							live := ""
							switch ep {
							case "token:authorization_code":
								live = mint("code")
								form = url.Values{"grant_type": {"authorization_code"}, "code": {live}, "redirect_uri": {"https://t.example/cb"}}
							case "token:authorization_code-used":
								// a replay of an already redeemed code by a caller that fails authentication must not touch the family
								if !canAuth {
									continue
								}
								live = mint("code")
								if w.Token(url.Values{"grant_type": {"authorization_code"}, "code": {live}, "redirect_uri": {"https://t.example/cb"}}, valid()).Err != nil {
									continue
								}
								form = url.Values{"grant_type": {"authorization_code"}, "code": {live}, "redirect_uri": {"https://t.example/cb"}}
							case "token:refresh_token":
								if live = mint("refresh"); live == "" {
									continue
								}
								form = url.Values{"grant_type": {"refresh_token"}, "refresh_token": {live}}
							case "token:client_credentials":
								form = url.Values{"grant_type": {"client_credentials"}}
								if idx%2 == 0 {
									form.Set("scope", "fosite")
								}
							case "token:password":
								form = url.Values{"grant_type": {"password"}, "username": {world.UserName}, "password": {world.UserPass}, "scope": {"fosite"}}
							case "token:device_code":
								if live = mint("device"); live == "" {
									continue
								}
								form = url.Values{"grant_type": {"urn:ietf:params:oauth:grant-type:device_code"}, "device_code": {live}}
							case "token:jwt-bearer", "token:jwt-bearer-skip":
								now := time.Now()
								as := world.SignJWT(keys.ClientRSA[1], "RS256", map[string]interface{}{"kid": "bk10"}, map[string]interface{}{"iss": "iss-10", "sub": "svc-10", "aud": []string{world.TokenURL},
									"exp": now.Add(time.Hour).Unix(), "iat": now.Unix(), "jti": fmt.Sprintf("j10-%d-%d", now.UnixNano(), w.NextOp())})
								form = url.Values{"grant_type": {"urn:ietf:params:oauth:grant-type:jwt-bearer"}, "assertion": {as}, "scope": {"fosite"}}
							case "revoke":
								if live = mint("access"); live == "" {
									continue
								}
								form = url.Values{"token": {live}}
								call = func() *world.Out { return w.Revoke(form, au) }
							case "par":
								form = url.Values{"response_type": {"code"}, "scope": {"fosite"}, "state": {"state-0123456789"}, "redirect_uri": {"https://t.example/cb"}}
								call = func() *world.Out { return w.PAR(form, au) }
							case "device":
								form = url.Values{"scope": {"fosite"}}
								if tr.Name == "basic" || tr.Name == "basic-unescaped" {
									form.Set("client_id", id) // the device endpoint requires client_id in the body (the Basic header still takes precedence)
								}
								call = func() *world.Out { return w.Device(form, au) }
							}
							if call == nil {
								call = func() *world.Out { return w.Token(form, au) }
							}
							before := w.Store.Digest()
							w.Store.ResetCalls()
							w.Store.Record = true
							out := call()
							w.Store.Record = false
							calls := w.Store.TakeCalls()
							processed := out.Err == nil
							effWant, effWhy := want, why
							if ep == "token:jwt-bearer-skip" {
								effWant, effWhy = -1, "handler-may-skip-client-authentication"
							}
							if ep == "device" && tr.Name != "post" && tr.Name != "id-only" && tr.Name != "both" && effWant == 1 {
								effWhy = effWhy + "+client_id-in-body"
							}
							c.Case(fmt.Sprintf("reg=%s transport=%s secret=%s unknown=%v endpoint=%s want=%d(%s) processed=%v err=%s", reg.Name, tr.Name, rel, unknown, ep, effWant, effWhy, processed, out.ErrName))
							c.DisjointN++
							hist := []string{fmt.Sprintf("registration %+v", reg), fmt.Sprintf("endpoint %s transport %s secret-relation %s unknown-client %v", ep, tr.Name, rel, unknown), "result: " + world.ErrDetail(out.Err)}
							switch effWant {
							case -1:
								c.Unspecified(effWhy)
							case 0:
								c.Count("c10_rejected", 1)
								c10Wire(c, ep, effWhy, out, hist)
								if processed {
									c.Violate(run.Violation{Kind: "unauthenticated-request-processed", Key: fmt.Sprintf("unauthenticated-request-processed %s endpoint=%s", effWhy, ep), Detail: "request processed although the decision function says reject: " + effWhy, History: hist})
								} else if out.ErrName != "invalid_client" && out.ErrName != "invalid_request" {
									// the statement names the two classes a failed client authentication is answered with
									c.Count("c10_rejected_other_class:"+out.ErrName, 1)
									c.Violate(run.Violation{Kind: "rejection-class", Key: fmt.Sprintf("rejection-class %s endpoint=%s got=%s", effWhy, ep, out.ErrName),
										Detail: "a request that failed client authentication was answered " + out.ErrName + ": " + world.ErrDetail(out.Err), History: hist})
								}
								for _, cl := range calls {
									if world.TokenTableWrites[cl.Method] && cl.Err == "" {
										c.Violate(run.Violation{Kind: "rejected-request-wrote-state", Key: fmt.Sprintf("rejected-request-wrote-state %s endpoint=%s (%s)", cl.Method, ep, effWhy), Detail: "write " + cl.String() + " during a rejected request", History: hist})
									}
								}
								if d := world.DigestDiff(before, w.Store.Digest()); len(d) > 0 {
									c.Violate(run.Violation{Kind: "rejected-request-changed-state", Key: "rejected-request-changed-state endpoint=" + ep + " (" + effWhy + ")", Detail: fmt.Sprint(d), History: hist})
								}
							case 1:
								if processed {
									c.Count("c10_processed", 1)
								} else {
									c.Count("c10_authenticated_but_refused:"+ep+":"+out.ErrName, 1)
								}
							}
							// public clients never obtain tokens through client_credentials
							if ep == "token:client_credentials" && reg.Public && !unknown && processed {
								c.Violate(run.Violation{Kind: "public-client-credentials", Key: "public-client-credentials", Detail: "a public client obtained a token through the client_credentials grant", History: hist})
							}
						}
					}
				}
			}
			_ = skip
			_ = ri
		}
	}
	c.Sample(map[string]interface{}{"registrations": len(regs), "transports": len(trs), "secret_relations": rels, "endpoints": endpoints})
	c10UsedAssertions(c)
	c10CustomStrategy(c)
	c10RetiredSecrets(c)
}

// c10RetiredSecrets: the set of secrets that authenticate a client is the CURRENT registration's (current secret plus the
// rotated ones listed now). A secret that has been retired from the rotation list stops working at once, also when it had
// been used successfully before on the same provider instance, whether the registration was edited in place or replaced.
func c10RetiredSecrets(c *run.Ctx) {
	if !c.Mine(4) && c.NShards > 4 {
		return
	}
	eps := []string{"token", "revoke", "par", "device"}
	for _, replace := range []bool{false, true} {
		for _, kind := range []string{"plain", "oidc"} {
			w := world.New(world.Opts{})
			sp := world.ClientSpec{ID: "rot", Kind: kind, Secret: "current-secret-0", Rotated: []string{"rotated-secret-1", "rotated-secret-2"}, AuthMethod: "client_secret_basic", RedirectURIs: []string{"https://rot.example/cb"},
				GrantTypes: world.AllGrants, ResponseTypes: world.AllResponseTypes, Scopes: []string{"fosite", "offline"}}
			w.AddClient(sp)
			victim := w.Token(url.Values{"grant_type": {"client_credentials"}, "scope": {"fosite"}}, world.Basic("rot", "current-secret-0")).S("access_token")
			do := func(ep, secret string) *world.Out {
				au := world.Basic("rot", secret)
				switch ep {
				case "token":
					return w.Token(url.Values{"grant_type": {"client_credentials"}, "scope": {"fosite"}}, au)
				case "revoke":
					return w.Revoke(url.Values{"token": {victim}}, au)
				case "par":
					return w.PAR(url.Values{"response_type": {"code"}, "scope": {"fosite"}, "state": {"state-0123456789"}, "redirect_uri": {"https://rot.example/cb"}}, au)
				}
				return w.Device(url.Values{"scope": {"fosite"}, "client_id": {"rot"}}, au)
			}
			var hist []string
			// every secret of the registration is used successfully once
			for _, sec := range []string{"rotated-secret-1", "rotated-secret-2", "current-secret-0", "rotated-secret-1"} {
				out := do("token", sec)
				hist = append(hist, fmt.Sprintf("token with %s => %s", sec, world.ErrDetail(out.Err)))
				if out.Err == nil {
					c.Count("c10_processed", 1)
				}
			}
			// retire rotated-secret-1 (and make the old current secret a rotated one, with a new current secret)
			nsp := sp
			nsp.Secret, nsp.Rotated = "current-secret-3", []string{"current-secret-0", "rotated-secret-2"}
			nc := nsp.Build()
			if replace {
				w.Mem.Clients["rot"] = nc
			} else {
				dc, ndc := world.DC(w.Client("rot")), world.DC(nc)
				dc.Secret, dc.RotatedSecrets = ndc.Secret, ndc.RotatedSecrets
			}
			hist = append(hist, fmt.Sprintf("registration updated (replaced=%v): current-secret-3, rotated [current-secret-0 rotated-secret-2]; rotated-secret-1 retired", replace))
			for _, ep := range eps {
				for _, sec := range []string{"rotated-secret-1", "current-secret-3", "current-secret-0", "rotated-secret-2", "rotated-secret-1"} {
					retired := sec == "rotated-secret-1"
					if ep == "revoke" && !retired {
						continue // keep the victim token alive
					}
					before := w.Store.Digest()
					out := do(ep, sec)
					c.Case(fmt.Sprintf("retired-secret kind=%s replaced=%v endpoint=%s secret-retired=%v processed=%v err=%s", kind, replace, ep, retired, out.Err == nil, out.ErrName))
					c.Count("c10_retired_secret_probes", 1)
					h := append(append([]string(nil), hist...), fmt.Sprintf("%s with %s => %s", ep, sec, world.ErrDetail(out.Err)))
					if retired {
						c.Count("c10_rejected", 1)
						if out.Err == nil {
							c.Violate(run.Violation{Kind: "unauthenticated-request-processed", Key: "unauthenticated-request-processed retired-rotated-secret endpoint=" + ep,
								Detail: "a secret that is no longer in the client's registration authenticated a request", History: h})
						} else if d := world.DigestDiff(before, w.Store.Digest()); len(d) > 0 {
							c.Violate(run.Violation{Kind: "rejected-request-changed-state", Key: "rejected-request-changed-state endpoint=" + ep + " (retired-rotated-secret)", Detail: fmt.Sprint(d), History: h})
						}
					} else if out.Err == nil {
						c.Count("c10_processed", 1)
					} else {
						c.Count("c10_authenticated_but_refused:retired-probe:"+ep+":"+out.ErrName, 1)
					}
				}
			}
			if !w.IntrospectAPI(victim, fosite.AccessToken).Active {
				c.Violate(run.Violation{Kind: "rejected-request-changed-state", Key: "rejected-request-changed-state retired-rotated-secret revoked a token", Detail: "the token named in the rejected revocation requests is no longer active", History: hist})
			}
		}
	}
}

// c10UsedAssertions: for a private_key_jwt client a client assertion is a one-time proof. Once it has been accepted at any
// client-authenticated endpoint it is no credential at any of them, whatever other assertions (with earlier or later expiries)
// the server has seen in between; a request carrying it is rejected and changes nothing.
func c10UsedAssertions(c *run.Ctx) {
	if !c.Mine(3) && c.NShards > 3 {
		return
	}
	keys := world.GetKeys()
	eps := []string{"token", "revoke", "par", "device", "introspect"}
	lifetimes := [][]time.Duration{{time.Minute, time.Hour, 30 * time.Second}, {time.Hour, time.Minute, 2 * time.Hour}, {5 * time.Minute, 5 * time.Minute, 5 * time.Minute},
		{72 * time.Hour, 30 * time.Minute, 96 * time.Hour}}
	// with the last set a day and an hour pass between use and replay: the long-lived assertions are still unexpired
	waits := []time.Duration{0, 0, 0, 25 * time.Hour}
	for li, lt := range lifetimes {
		for first := range eps {
			w := world.New(world.Opts{JWTAccess: (li+first)%2 == 1})
			w.AddClient(world.ClientSpec{ID: "pk", Kind: "oidc", AuthMethod: "private_key_jwt", AuthSigAlg: "RS256", JWKS: world.PublicJWKS(nil, &keys.ClientRSA[0].PublicKey), RedirectURIs: []string{"https://pk.example/cb"},
				GrantTypes: world.AllGrants, ResponseTypes: world.AllResponseTypes, Scopes: []string{"openid", "offline", "fosite"}})
			mk := func(life time.Duration) string {
				now := time.Now()
				return world.SignJWT(keys.ClientRSA[0], "RS256", map[string]interface{}{"kid": "k0"}, map[string]interface{}{"iss": "pk", "sub": "pk", "aud": world.TokenURL,
					"exp": now.Add(life).Unix(), "iat": now.Unix(), "jti": nextJTI("c10used")})
			}
			victim := w.Token(url.Values{"grant_type": {"client_credentials"}, "scope": {"fosite"}}, world.Auth{Mode: "none", Assertion: mk(time.Hour)}).S("access_token")
			do := func(ep, as string) *world.Out {
				au := world.Auth{Mode: "none", Assertion: as}
				switch ep {
				case "token":
					return w.Token(url.Values{"grant_type": {"client_credentials"}, "scope": {"fosite"}}, au)
				case "revoke":
					return w.Revoke(url.Values{"token": {victim}}, au)
				case "par":
					return w.PAR(url.Values{"response_type": {"code"}, "scope": {"fosite"}, "state": {"state-0123456789"}, "redirect_uri": {"https://pk.example/cb"}}, au)
				case "device":
					return w.Device(url.Values{"scope": {"fosite"}, "client_id": {"pk"}}, au)
				}
				return w.IntrospectHTTP(url.Values{"token": {victim}}, au, "")
			}
			var used []string
			var hist []string
			for i, life := range lt {
				as := mk(life)
				ep := eps[(first+i)%len(eps)]
				if ep == "revoke" {
					ep = "token" // keep the victim token alive for the replays
				}
				out := do(ep, as)
				hist = append(hist, fmt.Sprintf("fresh assertion (exp +%s) at %s => %s", life, ep, world.ErrDetail(out.Err)))
				if out.Err == nil {
					used = append(used, as)
					c.Count("c10_processed", 1)
				} else {
					c.Count("c10_fresh_assertion_refused:"+ep+":"+out.ErrName, 1)
				}
			}
			if waits[li] > 0 {
				world.Sleep(waits[li])
				hist = append(hist, fmt.Sprintf("%s pass", waits[li]))
				victim = w.Token(url.Values{"grant_type": {"client_credentials"}, "scope": {"fosite"}}, world.Auth{Mode: "none", Assertion: mk(time.Hour)}).S("access_token")
			}
			// assertions that were never valid: an expiry in 1970 (exp = 0 or a fraction of the first second)
			for _, e := range []interface{}{0, 0.5} {
				now := time.Now()
				never := world.SignJWT(keys.ClientRSA[0], "RS256", map[string]interface{}{"kid": "k0"}, map[string]interface{}{"iss": "pk", "sub": "pk", "aud": world.TokenURL,
					"exp": e, "iat": now.Unix(), "jti": nextJTI("c10never")})
				for _, ep := range eps {
					before := w.Store.Digest()
					out := do(ep, never)
					c.Case(fmt.Sprintf("never-valid-assertion exp=%v endpoint=%s processed=%v err=%s", e, ep, out.Err == nil, out.ErrName))
					c.Count("c10_rejected", 1)
					if out.Err == nil {
						c.Violate(run.Violation{Kind: "unauthenticated-request-processed", Key: "unauthenticated-request-processed client-assertion-expired-in-1970 endpoint=" + ep,
							Detail: fmt.Sprintf("a client assertion with exp=%v authenticated a request", e), History: hist})
					} else if d := world.DigestDiff(before, w.Store.Digest()); len(d) > 0 {
						c.Violate(run.Violation{Kind: "rejected-request-changed-state", Key: "rejected-request-changed-state endpoint=" + ep + " (client-assertion-expired-in-1970)", Detail: fmt.Sprint(d), History: hist})
					}
				}
			}
			// assertions that are out of their time: expired (must be rejected), not yet valid / issued in the future (may be
			// rejected). Whatever is rejected is answered with one of the two classes the statement names.
			for _, tc := range []struct {
				name   string
				claims map[string]interface{}
				must   bool
			}{
				{"expired-1h", map[string]interface{}{"exp": time.Now().Add(-time.Hour).Unix()}, true},
				{"expired-2s", map[string]interface{}{"exp": time.Now().Add(-2 * time.Second).Unix()}, true},
				{"nbf-in-1h", map[string]interface{}{"exp": time.Now().Add(2 * time.Hour).Unix(), "nbf": time.Now().Add(time.Hour).Unix()}, false},
				{"iat-in-1h", map[string]interface{}{"exp": time.Now().Add(2 * time.Hour).Unix(), "iat": time.Now().Add(time.Hour).Unix()}, false},
			} {
				for _, ep := range eps {
					cl := map[string]interface{}{"iss": "pk", "sub": "pk", "aud": world.TokenURL, "iat": time.Now().Unix(), "jti": nextJTI("c10time")}
					for k, v := range tc.claims {
						cl[k] = v
					}
					as := world.SignJWT(keys.ClientRSA[0], "RS256", map[string]interface{}{"kid": "k0"}, cl)
					before := w.Store.Digest()
					out := do(ep, as)
					c.Case(fmt.Sprintf("assertion-out-of-its-time %s endpoint=%s processed=%v err=%s", tc.name, ep, out.Err == nil, out.ErrName))
					h := append(append([]string(nil), hist...), fmt.Sprintf("assertion %s at %s => %s", tc.name, ep, world.ErrDetail(out.Err)))
					switch {
					case out.Err == nil && tc.must:
						c.Violate(run.Violation{Kind: "unauthenticated-request-processed", Key: "unauthenticated-request-processed client-assertion-" + tc.name + " endpoint=" + ep, Detail: "an expired client assertion authenticated a request", History: h})
					case out.Err == nil:
						c.Unspecified("client-assertion-" + tc.name + "-accepted")
					default:
						c.Count("c10_rejected", 1)
						c10Wire(c, ep, "client-assertion-"+tc.name, out, h)
						if out.ErrName != "invalid_client" && out.ErrName != "invalid_request" && !(ep == "introspect" && out.ErrName == "request_unauthorized") {
							c.Violate(run.Violation{Kind: "rejection-class", Key: fmt.Sprintf("rejection-class client-assertion-%s endpoint=%s got=%s", tc.name, ep, out.ErrName),
								Detail: "a request whose client assertion is out of its time was answered " + out.ErrName + ": " + world.ErrDetail(out.Err), History: h})
						}
						if d := world.DigestDiff(before, w.Store.Digest()); len(d) > 0 {
							c.Violate(run.Violation{Kind: "rejected-request-changed-state", Key: "rejected-request-changed-state endpoint=" + ep + " (client-assertion-" + tc.name + ")", Detail: fmt.Sprint(d), History: h})
						}
					}
				}
			}
			for ui, as := range used {
				for _, ep := range eps {
					before := w.Store.Digest()
					out := do(ep, as)
					c.Case(fmt.Sprintf("used-assertion lifetimes=%d endpoint=%s processed=%v err=%s", li, ep, out.Err == nil, out.ErrName))
					c.Count("c10_rejected", 1)
					c.Count("c10_used_assertion_replays", 1)
					h := append(append([]string(nil), hist...), fmt.Sprintf("assertion #%d presented again at %s => %s", ui, ep, world.ErrDetail(out.Err)))
					if out.Err == nil {
						c.Violate(run.Violation{Kind: "unauthenticated-request-processed", Key: "unauthenticated-request-processed used-client-assertion endpoint=" + ep,
							Detail: "a client assertion that had already been accepted once authenticated a request again", History: h})
					}
					c10Wire(c, ep, "used-client-assertion", out, h)
					if d := world.DigestDiff(before, w.Store.Digest()); len(d) > 0 && out.Err != nil {
						c.Violate(run.Violation{Kind: "rejected-request-changed-state", Key: "rejected-request-changed-state used-client-assertion endpoint=" + ep, Detail: fmt.Sprint(d), History: h})
					}
				}
			}
			if !w.IntrospectAPI(victim, fosite.AccessToken).Active && len(used) > 0 {
				c.Violate(run.Violation{Kind: "rejected-request-changed-state", Key: "rejected-request-changed-state used-client-assertion revoked a token", Detail: "the token named in the replayed revocation requests is no longer active", History: hist})
			}
		}
	}
}

// c10CustomStrategy: the operator configures a client authentication strategy of its own (here: fosite's default one plus
// "this client's secret has expired", RFC 7591 client_secret_expires_at). Every client-authenticated endpoint asks THAT
// strategy: a client it refuses is refused everywhere, and nothing is issued or invalidated in its name.
func c10CustomStrategy(c *run.Ctx) {
	if !c.Mine(5) && c.NShards > 5 {
		return
	}
	w := world.New(world.Opts{})
	p, ok := w.P.(*fosite.Fosite)
	if !ok {
		c.Inconcl("custom client authentication strategy: the composed provider is not a *fosite.Fosite")
		return
	}
	w.Cfg.ClientAuthenticationStrategy = func(ctx context.Context, r *http.Request, form url.Values) (fosite.Client, error) {
		cl, err := p.DefaultClientAuthenticationStrategy(ctx, r, form)
		if err == nil && cl.GetID() == "conf-a" {
			return nil, fosite.ErrInvalidClient.WithHint("The client secret has expired.")
		}
		return cl, err
	}
	good := world.Basic("conf-b", "secret-of-b")
	victim := w.Token(url.Values{"grant_type": {"client_credentials"}, "scope": {"fosite"}}, good).S("access_token")
	if victim == "" {
		c.Inconcl("custom client authentication strategy: no token for the control client")
		return
	}
	// a token of conf-a from before its secret expired
	w.Cfg.ClientAuthenticationStrategy = nil
	own := w.Token(url.Values{"grant_type": {"client_credentials"}, "scope": {"fosite"}}, world.Basic("conf-a", "secret-of-a")).S("access_token")
	w.Cfg.ClientAuthenticationStrategy = func(ctx context.Context, r *http.Request, form url.Values) (fosite.Client, error) {
		cl, err := p.DefaultClientAuthenticationStrategy(ctx, r, form)
		if err == nil && cl.GetID() == "conf-a" {
			return nil, fosite.ErrInvalidClient.WithHint("The client secret has expired.")
		}
		return cl, err
	}
	for _, who := range []struct {
		id, secret string
		refused    bool
	}{{"conf-a", "secret-of-a", true}, {"conf-b", "secret-of-b", false}} {
		au := world.Basic(who.id, who.secret)
		tok := map[string]string{"conf-a": own, "conf-b": victim}[who.id]
		// the four endpoints the statement names (the introspection endpoint authenticates its callers in its own way, C09)
		for _, ep := range []string{"token", "par", "device", "revoke"} {
			before := w.Store.Digest()
			var out *world.Out
			switch ep {
			case "token":
				out = w.Token(url.Values{"grant_type": {"client_credentials"}, "scope": {"fosite"}}, au)
			case "par":
				out = w.PAR(url.Values{"response_type": {"code"}, "scope": {"fosite"}, "state": {"state-0123456789"}, "redirect_uri": {w.Specs[who.id].RedirectURIs[0]}}, au)
			case "device":
				out = w.Device(url.Values{"scope": {"fosite"}, "client_id": {who.id}}, au)
			case "introspect":
				out = w.IntrospectHTTP(url.Values{"token": {tok}}, au, "")
			case "revoke":
				out = w.Revoke(url.Values{"token": {tok}}, au)
			}
			processed := out.Err == nil
			c.Case(fmt.Sprintf("custom-strategy client=%s endpoint=%s refused-by-strategy=%v processed=%v err=%s", who.id, ep, who.refused, processed, out.ErrName))
			c.Count("c10_custom_strategy_probes", 1)
			hist := []string{"Config.ClientAuthenticationStrategy = default strategy, but conf-a is refused (secret expired)", fmt.Sprintf("%s at %s => %s (HTTP %d)", who.id, ep, world.ErrDetail(out.Err), out.Status)}
			if who.refused {
				c.Count("c10_rejected", 1)
				c10Wire(c, ep, "refused-by-configured-strategy", out, hist)
				if processed {
					c.Violate(run.Violation{Kind: "unauthenticated-request-processed", Key: "unauthenticated-request-processed refused-by-configured-strategy endpoint=" + ep,
						Detail: "the endpoint processed a request of a client the configured client authentication strategy refuses", History: hist})
				}
				if d := world.DigestDiff(before, w.Store.Digest()); len(d) > 0 {
					c.Violate(run.Violation{Kind: "rejected-request-changed-state", Key: "rejected-request-changed-state endpoint=" + ep + " (refused-by-configured-strategy)", Detail: fmt.Sprint(d), History: hist})
				}
			} else if !processed {
				c.Count("c10_custom_strategy_control_refused:"+ep+":"+out.ErrName, 1)
			} else {
				c.Count("c10_processed", 1)
			}
		}
	}
	if own != "" && !w.IntrospectAPI(own, fosite.AccessToken).Active {
		c.Violate(run.Violation{Kind: "rejected-request-changed-state", Key: "rejected-request-changed-state refused-by-configured-strategy revoked a token", Detail: "the token named in the refused revocation request is no longer active"})
	}
}

// c10Wire: a request the library refused has to be refused on the wire too - the response written for it is an error response
// (status >= 400, or for introspection a body without active=true), never one the caller reads as success.
func c10Wire(c *run.Ctx, ep, why string, out *world.Out, hist []string) {
	if out == nil || out.Err == nil || out.Crashed || out.Status == 0 {
		return
	}
	c.Count("c10_refusals_seen_on_the_wire", 1)
	if out.Status/100 == 2 {
		if act, _ := out.JSON["active"].(bool); strings.HasPrefix(ep, "introspect") && !act {
			return
		}
		c.Violate(run.Violation{Kind: "rejection-class", Key: fmt.Sprintf("rejection-class refusal written as success endpoint=%s (%s) err=%s", ep, why, out.ErrName),
			Detail: fmt.Sprintf("the library refused the request (%s) but the response written for it is HTTP %d %q", world.ErrDetail(out.Err), out.Status, out.Body), History: hist})
	}
}

func clientAssertionFor(client string, key interface{}, kid string) string {
	now := time.Now()
	return world.SignJWT(key, "RS256", map[string]interface{}{"kid": kid}, map[string]interface{}{"iss": client, "sub": client, "aud": world.TokenURL,
		"exp": now.Add(time.Hour).Unix(), "iat": now.Unix(), "jti": fmt.Sprintf("ca-%d-%d", now.UnixNano(), atomic.AddInt64(&jtiCounter, 1))})
}

var jtiCounter int64
