package mon

import (
	"fmt"
	"math/rand"
	"net/url"
	"sort"
	"strings"
	"sync"
	"time"

	"fverif/run"
	"fverif/sim"
	"fverif/world"
)

func init() { Registry["C19lock"] = c19lock }

// c19lock: lock-order monitor over the reference store (C19: "no execution ... deadlocks"). Every API operation is driven,
// sequentially and from a few goroutines, while the hook in storage (verif build) reports each acquisition; the oracle is
// the order graph: a cycle (or a lock re-entered by the goroutine that holds it) is a potential deadlock whatever the
// interleavings that were actually observed.
func c19lock(c *run.Ctx) {
	c.Need("c19_lock_events", 1) // the observer must have seen the locks; a store that never nests two of them has no edges, which is fine
	if !world.LockOrderStart() {
		c.Inconcl("binary built without the verif tag: the lock observer hook is not compiled in")
		return
	}
	keys := world.GetKeys()
	rounds := 3
	steps := 60
	if !c.Quick() {
		rounds, steps = 12, 200
	}
	var ops int64
	for round := 0; round < rounds; round++ {
		r := rand.New(rand.NewSource(c.Seed*7919 + int64(c.Shard)*101 + int64(round)))
		// (a) sequential histories through the reference model's driver (every grant type, refresh, revoke, replay, introspection sweep)
		v := variant(round*c.NShards + c.Shard)
		v.DB, v.Hydrate = false, false // the reference store itself
		w := v.build(nil)
		s := sim.New(w, c, "none")
		for i := 0; i < steps; i++ {
			randStep(s, r, Weights{Authorize: 3, Redeem: 4, Refresh: 6, Revoke: 2, Other: 2}) // no clock advance: this binary runs on the real clock
			if i%10 == 0 {
				s.Sweep("lock-order")
			}
			ops++
		}
		// (b) the stress mix (device, PAR, PKCE, client assertions included), sequentially and from a few goroutines
		w2 := world.New(world.Opts{JWTAccess: round%2 == 1})
		w2.AddClient(world.ClientSpec{ID: "pkj", Kind: "oidc", AuthMethod: "private_key_jwt", AuthSigAlg: "RS256", JWKS: world.PublicJWKS(nil, &keys.ClientRSA[0].PublicKey), RedirectURIs: []string{"https://pkj.example/cb"},
			GrantTypes: world.AllGrants, ResponseTypes: world.AllResponseTypes, Scopes: scopePool})
		p := &pool{}
		a := world.Basic("conf-a", "secret-of-a")
		for i := 0; i < 6; i++ {
			dv := w2.Device(url.Values{"client_id": {"conf-a"}, "scope": {"offline fosite openid"}}, a)
			if dv.Err == nil && w2.DeviceDecide(dv.S("user_code"), true, "user-dev", nil, true) == nil {
				p.devs = append(p.devs, dv.S("device_code"))
			}
		}
		shared := clientAssertionFor("pkj", keys.ClientRSA[0], "k0")
		for i := 0; i < steps; i++ {
			c19op(w2, p, r, a, keys, shared)
			ops++
		}
		// the order graph is judged on what the sequential phases taught BEFORE goroutines are let loose on the same locks:
		// with a cycle in the graph the concurrent phase could really deadlock, and a hung monitor reports nothing
		if _, _, cyc, _ := world.LockOrderReport(); len(cyc) > 0 {
			break
		}
		var wg sync.WaitGroup
		for g := 0; g < 4; g++ {
			wg.Add(1)
			go func(g int) {
				defer wg.Done()
				rr := rand.New(rand.NewSource(c.Seed*31 + int64(c.Shard)*7 + int64(round)*3 + int64(g)))
				for i := 0; i < steps/2; i++ {
					c19op(w2, p, rr, a, keys, shared)
				}
			}(g)
		}
		wg.Wait()
		ops += int64(4 * (steps / 2))
	}
	events, edges, cycles, wit := world.LockOrderReport()
	c.Count("c19_lock_events", events)
	c.Count("c19_lock_order_edges", int64(len(edges)))
	c.Eval(ops)
	var es []string
	for e, n := range edges {
		es = append(es, fmt.Sprintf("%s (%d)", e, n))
		c.Case("lock-order " + e)
	}
	sort.Strings(es)
	for _, cy := range cycles {
		first := strings.SplitN(cy, " -> ", 3)
		w0 := ""
		if len(first) >= 2 {
			w0 = wit[first[0]+" -> "+strings.Fields(first[1])[0]]
			if w0 == "" {
				w0 = wit[cy]
			}
		}
		c.Violate(run.Violation{Kind: "lock-order-cycle", Key: "lock-order-cycle " + cy, Detail: "the table locks of the reference store are taken in conflicting orders (potential deadlock): " + cy + "\nfirst acquisition along the cycle:\n" + w0,
			History: es})
	}
	if c.Shard == 0 {
		c.Sample(map[string]interface{}{"lock_order_edges": es, "lock_events": events})
	}
	if len(cycles) > 0 {
		return
	}
	// atomicity under widened windows: with the observer compiled in, every goroutine pauses just before it starts waiting for a
	// table lock, i.e. BETWEEN two critical sections of one store operation and never inside one. The hot-key bursts are
	// replayed under that schedule and judged by the same linearizability checker.
	c19hot(c, c19Model(), map[bool]int{true: 600, false: 6000}[c.Quick()], 30*time.Microsecond)
	c.Count("c19_delayed_bursts", 1)
}
