package mon

import (
	"testing"

	"fverif/world"

	"github.com/ory/fosite/storage"
)

func TestStructuralDigestSeesRecordFlags(t *testing.T) {
	mem := storage.NewMemoryStore()
	applySop(mem, sop{Op: "code-create", Key: "k1", Req: "r1"})
	applySop(mem, sop{Op: "rt-create", Key: "k1", Req: "r1"})
	a := world.StructuralDigest(mem)
	applySop(mem, sop{Op: "code-inval", Key: "k1", Req: "r1"})
	b := world.StructuralDigest(mem)
	applySop(mem, sop{Op: "rt-revoke", Key: "k1", Req: "r1"})
	c := world.StructuralDigest(mem)
	if a == b || b == c {
		t.Fatalf("digest blind to flags:\n%s\n%s\n%s", a, b, c)
	}
	t.Log(c)
}
