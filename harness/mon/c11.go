package mon

import (
	"fmt"
	"net/netip"
	"net/url"
	"strings"
	"unicode/utf8"

	"github.com/ory/fosite"

	"fverif/run"
	"fverif/spec"
	"fverif/world"
)

func init() { Registry["C11"] = C11 }

var responseParamNames = []string{"code", "state", "scope", "access_token", "token_type", "expires_in", "id_token", "error", "error_description", "error_hint", "error_debug", "iss"}

// refQualifies is the reference matcher written from the statement: does the
// requested redirect_uri string qualify as a redirect target for this registration?
// Returns the verdict and the URI the redirect has to target.
func refQualifies(requested string, present bool, registered []string) (spec.V, string) {
	if !present || requested == "" {
		if len(registered) == 1 {
			u, err := url.Parse(registered[0])
			if err != nil || u.Scheme == "" || u.Fragment != "" || strings.Contains(registered[0], "#") {
				return spec.No, ""
			}
			return spec.Yes, registered[0]
		}
		return spec.No, ""
	}
	if !utf8.ValidString(requested) {
		return spec.Unknown, ""
	}
	for _, r := range requested {
		if r < 0x20 || r == 0x7f {
			// control characters: parsers are entitled to differ; the safe direction (no redirect) is still checked by exact match below
			if !contains(registered, requested) {
				return spec.No, ""
			}
			return spec.Unknown, ""
		}
	}
	exact := contains(registered, requested)
	u, err := url.Parse(requested)
	loop := spec.No
	if err == nil && strings.EqualFold(u.Scheme, "http") {
		hn := u.Hostname()
		if a, aerr := netip.ParseAddr(hn); aerr == nil {
			lb := a.IsLoopback()
			if a.Is4In6() {
				lb = a.Unmap().IsLoopback()
			}
			if lb {
				for _, r := range registered {
					ru, rerr := url.Parse(r)
					if rerr != nil {
						continue
					}
					if ru.Hostname() == hn && ru.Path == u.Path && ru.RawQuery == u.RawQuery {
						loop = spec.Yes
						if a.Is4In6() || u.User != nil || u.RawPath != "" || ru.RawPath != "" || a.Zone() != "" {
							loop = spec.Unknown
						}
					}
				}
			}
		}
	}
	if !exact && loop == spec.No {
		return spec.No, ""
	}
	if err != nil {
		return spec.No, ""
	}
	if strings.Contains(requested, "#") {
		if strings.HasSuffix(requested, "#") && strings.Count(requested, "#") == 1 {
			return spec.Unknown, ""
		}
		return spec.No, ""
	}
	if u.Scheme == "" {
		return spec.No, "" // relative: not absolute
	}
	if u.Opaque != "" {
		return spec.Unknown, ""
	}
	if !exact && loop == spec.Unknown {
		return spec.Unknown, ""
	}
	return spec.Yes, requested
}

func contains(xs []string, x string) bool {
	for _, y := range xs {
		if y == x {
			return true
		}
	}
	return false
}

var c11Pool = []string{
	"https://app.example/cb", "https://app.example/cb?tenant=1", "http://127.0.0.1/cb", "http://127.0.0.1:8080/cb", "http://[::1]/cb",
	"http://localhost/cb", "http://localhost:3000/cb", "com.example.app:/oauth", "myapp://callback", "https://app.example:8443/cb",
	"http://app.example/insecure", "https://app.example/a/b", "http://127.0.0.1/cb?tenant=1", "http://app.localhost/cb",
	"/cb", "//app.example/cb", "app.example/cb",
	"https://app.example/cb%2Fv2", "https://app.example/acme%3Aeu/cb", "https://app.example/q?",
	// loopback IP literals registered under a scheme other than http: the any-port allowance is for http requests only
	"https://127.0.0.1/cb", "https://[::1]:9443/cb?tenant=a", "com.example.app://127.0.0.1/cb",
}

func c11Mutations(base string) []string {
	m := []string{base}
	add := func(s ...string) { m = append(m, s...) }
	u, err := url.Parse(base)
	if err != nil {
		return m
	}
	rep := func(old, new string) string { return strings.Replace(base, old, new, 1) }
	add(strings.ToUpper(base), rep(u.Scheme, strings.ToUpper(u.Scheme)), base+"/", base+"//", base+"/../x", base+"/.", base+"?", base+"?x=1", base+"&x=1", base+"#", base+"#frag", base+"%23frag",
		base+"%2f", base+";x", base+" ", " "+base, base+"\n", base+"%0d%0aLocation:%20https://evil.example", base+"\x00", base+"\t", "\t"+base)
	if u.Host != "" {
		h := u.Host
		hn := u.Hostname()
		add(rep(h, strings.ToUpper(h)), rep(h, h+"."), rep(h, h+".evil.example"), rep(h, "evil"+h), rep(h, "evil.example"), rep(h, h+"@evil.example"), rep(h, "evil.example@"+h), rep(h, "user:pw@"+h),
			rep(h, hn+":443"), rep(h, hn+":80"), rep(h, hn+":8443"), rep(h, hn+":49152"), rep(h, hn+":0"), rep(h, hn+":99999"), rep(h, hn+":"), rep(h, hn+":abc"),
			rep(h, h+"\\@evil.example"), rep("://", ":\\\\"), rep("://", ":/"), rep("://", ":"), rep(u.Scheme+"://", "//"), rep(u.Scheme+"://", ""), rep(u.Scheme+":", "javascript:"),
			rep(hn, "127.0.0.2"), rep(hn, "127.1"), rep(hn, "2130706433"), rep(hn, "0x7f000001"), rep(hn, "0177.0.0.1"), rep(hn, "[::1]"), rep(hn, "[::ffff:127.0.0.1]"), rep(hn, "[0:0:0:0:0:0:0:1]"), rep(hn, "127.0.0.1"), rep(hn, "localhost"),
			rep(hn, "127.000.000.001"), rep(hn, "[::1%25eth0]"), rep(hn, "аpp.example"), rep(hn, "app%2eexample"))
		if u.Scheme == "http" {
			add(rep("http://", "https://"), rep("http://", "HTTP://"), rep("http://", "hTtP://"))
		} else {
			add(rep(u.Scheme+"://", "http://"))
		}
	}
	if u.Path != "" {
		add(rep(u.Path, strings.ToUpper(u.Path)), rep(u.Path, "/%63b"), rep(u.Path, u.Path+"x"), rep(u.Path, "/"), rep(u.Path, ""), rep(u.Path, "/x"+u.Path), rep(u.Path, "/"+u.Path), rep(u.Path, u.Path[:len(u.Path)-1]))
	}
	if u.RawQuery != "" {
		add(rep("?"+u.RawQuery, ""), rep(u.RawQuery, u.RawQuery+"&x=2"), rep(u.RawQuery, "x=2&"+u.RawQuery), rep(u.RawQuery, "tenant=2"), rep(u.RawQuery, "tenant=%31"))
	}
	add("", "/cb", "cb", "//app.example/cb", "https:app.example/cb", "https://", "http://", "://", "%", "https://app.example/cb"+strings.Repeat("a", 3000), "data:text/html,x", "https://evil.example/cb")
	return m
}

func C11(c *run.Ctx) {
	c.Need("c11_redirects_checked", 1)
	c.Need("c11_no_redirect_when_unqualified", 1)
	c.Need("c11_loopback_port_redirects", 1)
	// registered sets
	var sets [][]string
	for i := 0; i < len(c11Pool); i++ {
		sets = append(sets, []string{c11Pool[i]})
		sets = append(sets, []string{c11Pool[i], c11Pool[(i+3)%len(c11Pool)]})
		sets = append(sets, []string{c11Pool[(i+5)%len(c11Pool)], c11Pool[i], c11Pool[(i+1)%len(c11Pool)], c11Pool[(i+7)%len(c11Pool)]})
	}
	type scen struct {
		name string
		rt   string
		mode string
		mut  func(q url.Values)
		deny bool
	}
	scens := []scen{
		{"success-code", "code", "", nil, false},
		{"success-code-query", "code", "query", nil, false},
		{"success-code-fragment", "code", "fragment", nil, false},
		{"success-code-form_post", "code", "form_post", nil, false},
		{"success-token", "token", "", nil, false},
		{"success-idtoken-token-form_post", "id_token token", "form_post", nil, false},
		{"success-hybrid", "code id_token", "", nil, false},
		{"err-scope", "code", "", func(q url.Values) { q.Set("scope", "not-allowed") }, false},
		{"err-state", "code", "", func(q url.Values) { q.Set("state", "short") }, false},
		{"err-response-type", "unknown", "", nil, false},
		{"err-response-type-fragment", "id_token", "fragment", func(q url.Values) { q.Del("nonce") }, false},
		{"err-denied", "code", "", nil, true},
		{"err-denied-form_post", "token", "form_post", nil, true},
		{"err-unknown-client", "code", "", func(q url.Values) { q.Set("client_id", "ghost") }, false},
		{"err-bad-request-object", "code", "", func(q url.Values) { q.Set("request", "not.a.jwt"); q.Set("scope", "openid") }, false},
		{"err-registration", "code", "", func(q url.Values) { q.Set("registration", "x") }, false},
		{"err-bad-response-mode", "code", "weird", nil, false},
		{"err-prompt", "code id_token", "", func(q url.Values) { q.Set("prompt", "none login") }, false},
	}
	caseN := 0
	for si, set := range sets {
		if !c.Mine(si) {
			continue
		}
		w := world.New(world.Opts{})
		w.AddClient(world.ClientSpec{ID: "c11", Kind: "rich", Secret: "s11", AuthMethod: "client_secret_basic", RedirectURIs: set, GrantTypes: world.AllGrants,
			ResponseTypes: world.AllResponseTypes, Scopes: []string{"openid", "offline", "fosite"}, ResponseModes: world.AllModes})
		var reqs []string
		for _, b := range set {
			first := c11Mutations(b)
			reqs = append(reqs, first...)
			if !c.Quick() {
				// thorough: mutations of mutations (case + port, userinfo + encoding, look-alike host + fragment, ...)
				for _, m1 := range first {
					if m1 != "" {
						reqs = append(reqs, c11Mutations(m1)...)
					}
				}
			}
		}
		// other pool members that are not registered for this client
		for _, p := range c11Pool {
			if !contains(set, p) {
				reqs = append(reqs, p)
			}
		}
		seen := map[string]bool{}
		for ri, req := range reqs {
			if seen[req] {
				continue
			}
			seen[req] = true
			for sci, sc := range scens {
				// quick: each requested string with 4 of the scenarios (rotating); thorough: all
				if c.Quick() && (ri+sci+si)%5 != 0 && !(sci == 0) {
					continue
				}
				caseN++
				present := !(req == "" && ri%2 == 0)
				q := url.Values{"client_id": {"c11"}, "response_type": {sc.rt}, "state": {"state-0123456789"}, "nonce": {"nonce-0123456789"}, "scope": {"openid"}}
				if sc.rt == "code" || sc.rt == "token" {
					q.Set("scope", "fosite")
				}
				if present {
					q.Set("redirect_uri", req)
				}
				if sc.mode != "" {
					q.Set("response_mode", sc.mode)
				}
				if sc.mut != nil {
					sc.mut(q)
				}
				registered := set
				if q.Get("client_id") == "ghost" {
					registered = nil
				}
				verdict, target := refQualifies(req, present, registered)
				if q.Get("scope") == "openid" && !present {
					// OpenID Connect requests must carry a redirect_uri: no fallback to the single registered one
					verdict, target = spec.No, ""
				}
				out := w.Authorize(q, world.Consent{Deny: sc.deny})
				redirected := out.Kind == "redirect" || out.Kind == "form_post"
				c.Case(fmt.Sprintf("scenario=%s qualifies=%s redirected=%v kind=%s err=%s", sc.name, verdict, redirected, out.Kind, out.ErrName))
				c.DisjointN++
				hist := []string{fmt.Sprintf("registered=%q", set), fmt.Sprintf("requested=%q present=%v", req, present), "scenario=" + sc.name, fmt.Sprintf("status=%d location=%q action=%q", out.Status, out.Location, out.Action)}
				switch verdict {
				case spec.Unknown:
					c.Unspecified("redirect-uri-undetermined")
				case spec.No:
					c.Count("c11_no_redirect_when_unqualified", 1)
					if redirected {
						c.Violate(run.Violation{Kind: "redirect-to-unqualified-uri", Key: "redirect-to-unqualified-uri " + classify(req, set) + " scenario=" + sc.name,
							Detail: fmt.Sprintf("requested redirect_uri %q does not qualify for registered %q but the endpoint redirected: location=%q action=%q", req, set, out.Location, out.Action), History: hist})
					}
					if out.Params.Get("code") != "" || out.Params.Get("access_token") != "" {
						c.Violate(run.Violation{Kind: "credential-to-unqualified-uri", Key: "credential-to-unqualified-uri " + classify(req, set), Detail: "code/token delivered", History: hist})
					}
				case spec.Yes:
					if redirected {
						c.Count("c11_redirects_checked", 1)
						if out.Kind == "form_post" && strings.HasPrefix(out.Action, "#ZgotmplZ") {
							// html/template refused to emit a non-http(s) URL as form action: nothing is posted to any client URI
							c.Unspecified("form_post-action-sanitised-by-template")
						} else if why := sameTarget(out, target); why != "" {
							c.Violate(run.Violation{Kind: "redirect-target-differs", Key: "redirect-target-differs " + why + " scenario=" + sc.name,
								Detail: fmt.Sprintf("redirect target differs from the qualifying URI %q: %s; location=%q action=%q", target, why, out.Location, out.Action), History: hist})
						}
						if !contains(set, target) {
							c.Count("c11_loopback_port_redirects", 1)
						}
					}
					// transport security of the code flow under the default checker
					tu, _ := url.Parse(target)
					if tu != nil && tu.Scheme == "http" && !isLocalName(tu.Hostname()) && out.Params.Get("code") != "" && sc.rt == "code" {
						c.Violate(run.Violation{Kind: "code-to-plain-http", Key: "code-to-plain-http scenario=" + sc.name, Detail: "authorization code delivered to plain http non-local target " + target, History: hist})
					}
				}
			}
		}
		if si < 2*c.NShards {
			c.Sample(map[string]interface{}{"registered": set, "requested_examples": reqs[1:8], "scenarios": len(scens)})
		}
		c11PAR(c, w, set)
	}
	c11StaleRegistration(c)
}

// c11StaleRegistration: a request is pushed with a registered redirect URI; before the request_uri is used the registration is
// replaced by one that no longer lists that URI. Whatever the authorization endpoint answers then, it does not redirect to a URI
// the client does not register (success and error alike).
func c11StaleRegistration(c *run.Ctx) {
	if !c.Mine(3) && c.NShards > 3 {
		return
	}
	for _, errCase := range []bool{false, true} {
		w := world.New(world.Opts{})
		sp := world.ClientSpec{ID: "c11-stale", Secret: "s11", RedirectURIs: []string{"https://old.example.org/cb", "https://keep.example.org/cb"}, GrantTypes: world.AllGrants, ResponseTypes: world.AllResponseTypes, Scopes: []string{"fosite", "openid"}}
		w.AddClient(sp)
		p := w.PAR(url.Values{"response_type": {"code"}, "scope": {"fosite"}, "state": {"state-0123456789"}, "redirect_uri": {"https://old.example.org/cb"}}, world.Basic("c11-stale", "s11"))
		if p.Err != nil {
			c.Inconcl("c11 stale registration: push failed: " + world.ErrDetail(p.Err))
			return
		}
		sp2 := sp
		sp2.RedirectURIs = []string{"https://keep.example.org/cb"}
		if errCase {
			sp2.Scopes = []string{"openid"} // the pushed scope is no longer allowed either: an error is due
		}
		w.Mem.Clients["c11-stale"] = sp2.Build()
		az := w.Authorize(url.Values{"client_id": {"c11-stale"}, "request_uri": {p.S("request_uri")}}, world.Consent{})
		c.Case(fmt.Sprintf("stale-registration pushed-redirect-dropped error-case=%v kind=%s location=%q", errCase, az.Kind, az.Location))
		c.Count("c11_stale_registration_probes", 1)
		if (az.Kind == "redirect" || az.Kind == "form_post") && strings.HasPrefix(az.Location+az.Action, "https://old.example.org/") {
			c.Violate(run.Violation{Kind: "redirect-to-unqualified-uri", Key: fmt.Sprintf("redirect-to-unqualified-uri no-longer-registered (request_uri pushed before the registration changed) error=%v", az.Err != nil),
				Detail: "the authorization endpoint redirected to " + az.Location + az.Action + ", which the client no longer registers",
				History: []string{"push with redirect_uri=https://old.example.org/cb", "registration replaced: redirect URIs [https://keep.example.org/cb]", "authorize with the request_uri => " + az.Kind + " " + az.Location}})
		}
	}
}

func isLocalName(hn string) bool {
	if hn == "localhost" || strings.HasSuffix(hn, ".localhost") {
		return true
	}
	if a, err := netip.ParseAddr(hn); err == nil {
		return a.IsLoopback() || (a.Is4In6() && a.Unmap().IsLoopback())
	}
	return false
}

// classify abstracts how a requested URI relates to the registration (for witness keys).
func classify(req string, set []string) string {
	u, err := url.Parse(req)
	if err != nil {
		return "unparsable"
	}
	switch {
	case req == "":
		return "empty"
	case u.Scheme == "":
		return "relative"
	case strings.Contains(req, "#"):
		return "fragment"
	case u.User != nil:
		return "userinfo"
	}
	for _, r := range set {
		ru, err := url.Parse(r)
		if err != nil {
			continue
		}
		if ru.Hostname() == u.Hostname() && ru.Path == u.Path && ru.RawQuery == u.RawQuery && ru.Scheme == u.Scheme {
			return "same-host-path-query-other-port(" + u.Hostname() + ")"
		}
		if ru.Host == u.Host && ru.Scheme == u.Scheme {
			return "same-host-other-path-or-query"
		}
	}
	return "other-host-or-scheme"
}

// sameTarget compares the redirect actually written with the qualifying URI; "" if equal.
func sameTarget(out *world.AuthzOut, target string) string {
	want, err := url.Parse(target)
	if err != nil {
		return "qualifying URI unparsable"
	}
	if out.Kind == "form_post" {
		if out.Action != target {
			// the template may normalise via url.String(): compare components
			au, err := url.Parse(out.Action)
			if err != nil {
				return "form action unparsable"
			}
			return cmpURL(au, want, nil)
		}
		return ""
	}
	got := out.Target
	if got == nil {
		return "location unparsable"
	}
	// string identity where it can be demanded: if the qualifying URI survives Go's own parse / print round trip unchanged,
	// the Location must start with exactly that spelling (escapes, single-slash custom schemes ... included)
	if want.String() == target {
		base := target
		if i := strings.IndexAny(base, "?#"); i >= 0 {
			base = base[:i]
		}
		if !strings.HasPrefix(out.Location, base) || (len(out.Location) > len(base) && !strings.ContainsRune("?#", rune(out.Location[len(base)]))) {
			return "spelling"
		}
	}
	return cmpURL(got, want, responseParamNames)
}

func cmpURL(got, want *url.URL, strip []string) string {
	if !strings.EqualFold(got.Scheme, want.Scheme) {
		return "scheme"
	}
	if got.Host != want.Host {
		return "host"
	}
	if (got.User == nil) != (want.User == nil) || (got.User != nil && got.User.String() != want.User.String()) {
		return "userinfo"
	}
	if got.EscapedPath() != want.EscapedPath() && got.Path != want.Path {
		return "path"
	}
	gq, wq := got.Query(), want.Query()
	for _, n := range strip {
		gq.Del(n)
	}
	if gq.Encode() != wq.Encode() {
		return "query"
	}
	// any fragment must consist of response parameters only
	if got.Fragment != "" {
		fv, err := url.ParseQuery(got.EscapedFragment())
		if err != nil {
			return "fragment"
		}
		for _, n := range strip {
			fv.Del(n)
		}
		if len(fv) != 0 {
			return "fragment"
		}
	}
	return ""
}

// c11PAR: the pushed-authorization endpoint accepts plain-http targets only on loopback/localhost hosts.
func c11PAR(c *run.Ctx, w *world.World, set []string) {
	a := world.Basic("c11", "s11")
	for _, r := range set {
		u, err := url.Parse(r)
		if err != nil {
			continue
		}
		for _, rt := range []string{"code", "token", "id_token token", "code id_token"} {
			scope := "fosite"
			if strings.Contains(rt, "id_token") {
				scope = "openid"
			}
			out := w.PAR(url.Values{"client_id": {"c11"}, "response_type": {rt}, "state": {"state-0123456789"}, "nonce": {"nonce-0123456789"}, "scope": {scope}, "redirect_uri": {r}}, a)
			insecure := u.Scheme == "http" && !isLocalName(u.Hostname())
			c.Case(fmt.Sprintf("par registered-uri rt=%q insecure=%v accepted=%v", rt, insecure, out.Err == nil))
			if insecure && out.Err == nil {
				c.Violate(run.Violation{Kind: "par-plain-http", Key: "par-plain-http rt=" + rt, Detail: "PAR accepted plain http non-local redirect_uri " + r + " for response_type " + rt})
			}
			if u.Scheme == "" && out.Err == nil {
				c.Violate(run.Violation{Kind: "par-relative-uri", Key: "par-relative-uri", Detail: "PAR accepted the non-absolute redirect_uri " + r})
			}
		}
	}
	// unregistered target at the push endpoint
	out := w.PAR(url.Values{"client_id": {"c11"}, "response_type": {"code"}, "state": {"state-0123456789"}, "scope": {"fosite"}, "redirect_uri": {"https://evil.example/cb"}}, a)
	if out.Err == nil {
		c.Violate(run.Violation{Kind: "par-unregistered-uri", Key: "par-unregistered-uri", Detail: "PAR accepted an unregistered redirect_uri"})
	}
	_ = fosite.ErrInvalidRequest
}
