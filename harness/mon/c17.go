package mon

import (
	"fmt"
	"github.com/go-jose/go-jose/v3"
	"net/url"
	"sort"
	"strings"
	"time"

	"github.com/ory/fosite"

	"fverif/run"
	"fverif/world"
)

func init() {
	Registry["C17"] = C17
	Registry["C17conc"] = c17conc
}

// c17conc: two authorization requests carrying the same request_uri overlap, on a store whose delete reports "no such row"
// (the loser of the race to consume the pushed request learns about it). Every interleaving of their storage calls is
// enumerated; a request_uri starts at most one authorization. With the reference store, whose delete never fails, the
// statement promises nothing for overlapping requests, so only the row-counting store is driven.
func c17conc(c *run.Ctx) {
	c.Need("c17_schedules", 1)
	limit := 3000
	if c.Quick() {
		limit = 400
	}
	for mi, rt := range []string{"code", "code id_token"} {
		if !c.Mine(mi) {
			continue
		}
		var prefix []int
		schedules := 0
		exhaustive := true
		for {
			w := world.New(world.Opts{Mode: world.Mode{DB: true, RowCount: true}})
			a := world.Basic("conf-a", "secret-of-a")
			par := w.PAR(url.Values{"client_id": {"conf-a"}, "response_type": {rt}, "scope": {"openid fosite"}, "state": {"state-0123456789"}, "nonce": {"nonce-0123456789"}, "redirect_uri": {"https://app-a.example/cb"}}, a)
			if par.Err != nil {
				c.Inconcl("push failed: " + world.ErrDetail(par.Err))
				break
			}
			results := make([]*world.AuthzOut, 2)
			var ops []func()
			for i := 0; i < 2; i++ {
				i := i
				ops = append(ops, func() {
					results[i] = w.Authorize(url.Values{"client_id": {"conf-a"}, "request_uri": {par.S("request_uri")}}, world.Consent{})
				})
			}
			s := &world.Sched{W: w, Skip: map[string]bool{"GetClient": true}}
			s.Run(ops, prefix)
			if s.Hung {
				c.Inconcl("scheduler watchdog fired")
				break
			}
			schedules++
			okN := 0
			for _, o := range results {
				if o != nil && o.Err == nil && o.Params.Get("code") != "" {
					okN++
				}
			}
			c.Eval(1)
			c.Count("c17_schedules", 1)
			c.Distinct["schedule "+rt+" "+strings.Join(s.Trace, " ")]++
			c.Count(fmt.Sprintf("c17_authorizations_per_request_uri=%d", okN), 1)
			if okN > 1 {
				c.Violate(run.Violation{Kind: "request-uri-twice", Key: "request-uri-twice overlapping requests, row-counting store", Detail: "two overlapping authorization requests both started an authorization from one request_uri", History: s.Trace})
			}
			if schedules == 1 && mi == 0 {
				c.Sample(map[string]interface{}{"response_type": rt, "first_schedule": s.Trace})
			}
			prefix = world.NextPrefix(s.Choices, s.Taken)
			if prefix == nil {
				break
			}
			if schedules >= limit {
				exhaustive = false
				break
			}
		}
		c.Count(fmt.Sprintf("c17_schedules_%s_exhaustive=%v", strings.ReplaceAll(rt, " ", "+"), exhaustive), int64(schedules))
	}
}

type pushed struct {
	uri    string
	client string
	form   url.Values
	exp    time.Time
	used   bool
	burned bool // a wrong-client attempt consumed it (allowed by the statement)
}

func C17(c *run.Ctx) {
	c.Need("c17_uses_ok", 1)
	c.Need("c17_second_use_refused", 1)
	c.Need("c17_override_attempts", 1)
	c.Need("c17_push_refused", 1)
	n := c.N(160, 40000)
	for i := 0; i < n; i++ {
		gi := i*c.NShards + c.Shard
		r := caseRng(c, i)
		enforce := gi%2 == 1
		prefix := []string{"", "urn:custom:par:"}[(gi/2)%2]
		life := []time.Duration{0, 90 * time.Second}[(gi/4)%2]
		w := world.New(world.Opts{Mode: world.Mode{DB: (gi/8)%2 == 1, Hydrate: (gi/16)%2 == 1}, Cfg: func(cfg *fosite.Config) {
			cfg.IsPushedAuthorizeEnforced = enforce
			cfg.PushedAuthorizeRequestURIPrefix = prefix
			cfg.PushedAuthorizeContextLifespan = life
		}})
		// round 8 (C17-T): a third of the worlds also register, for every client of the cast, a DIFFERENT client whose id
		// differs in letter case only and which has the same redirect URIs registered; such a twin is one of the wrong clients
		twins := gi%3 == 0
		if twins {
			for _, sp := range world.DefaultClients() {
				sp.ID = strings.ToUpper(sp.ID)
				w.AddClient(sp)
			}
		}
		effPrefix := prefix
		if effPrefix == "" {
			effPrefix = "urn:ietf:params:oauth:request_uri:"
		}
		effLife := orDefault(life, 5*time.Minute)
		var hist []string
		id := fmt.Sprintf("case-%d", gi)
		viol := func(kind, key, detail string) {
			c.Violate(run.Violation{Kind: kind, Key: kind + " " + key, Case: id, Detail: detail, History: append([]string(nil), hist...)})
		}
		// ---- push endpoint validation
		goodForm := func(client string) url.Values {
			sp := w.Specs[client]
			return url.Values{"client_id": {client}, "response_type": {pick(r, []string{"code", "code", "token", "code id_token"})}, "scope": {"openid fosite"}, "state": {"pushed-state-0123456789"},
				"nonce": {"nonce-0123456789"}, "redirect_uri": {sp.RedirectURIs[0]}, "audience": {sp.Audience[0]}, "custom_param": {"pushed-value"}}
		}
		badPushes := []struct {
			name string
			mut  func(f url.Values) world.Auth
		}{
			{"wrong-secret", func(f url.Values) world.Auth { return world.Basic("conf-a", "nope") }},
			{"no-credentials", func(f url.Values) world.Auth { f.Del("client_id"); return world.Auth{Mode: "none"} }},
			{"confidential-id-only", func(f url.Values) world.Auth { return world.Public("conf-a") }},
			{"unknown-client", func(f url.Values) world.Auth { f.Set("client_id", "ghost"); return world.Basic("ghost", "x") }},
			{"unregistered-redirect", func(f url.Values) world.Auth {
				f.Set("redirect_uri", "https://evil.example/cb")
				return world.Basic("conf-a", "secret-of-a")
			}},
			{"scope-not-allowed", func(f url.Values) world.Auth {
				f.Set("scope", "openid admin")
				return world.Basic("conf-a", "secret-of-a")
			}},
			{"audience-not-allowed", func(f url.Values) world.Auth {
				f.Set("audience", "https://evil.example")
				return world.Basic("conf-a", "secret-of-a")
			}},
			{"short-state", func(f url.Values) world.Auth { f.Set("state", "short"); return world.Basic("conf-a", "secret-of-a") }},
			{"unknown-response-type", func(f url.Values) world.Auth {
				f.Set("response_type", "unknown")
				return world.Basic("conf-a", "secret-of-a")
			}},
			{"contains-request_uri", func(f url.Values) world.Auth {
				f.Set("request_uri", effPrefix+"abc")
				return world.Basic("conf-a", "secret-of-a")
			}},
			{"contains-request_uri-behind-an-empty-one", func(f url.Values) world.Auth {
				// the parameter occurs twice: an empty value first, a request_uri second
				f["request_uri"] = []string{"", effPrefix + "abc"}
				return world.Basic("conf-a", "secret-of-a")
			}},
			{"contains-foreign-request_uri", func(f url.Values) world.Auth {
				f.Set("request_uri", "https://client.example/ro.jwt")
				return world.Basic("conf-a", "secret-of-a")
			}},
			{"openid-without-redirect", func(f url.Values) world.Auth { f.Del("redirect_uri"); return world.Basic("conf-a", "secret-of-a") }},
			{"plain-http-redirect", func(f url.Values) world.Auth {
				f.Set("redirect_uri", "http://insecure.example/cb")
				return world.Basic("conf-a", "secret-of-a")
			}},
		}
		bp := badPushes[gi%len(badPushes)]
		f := goodForm("conf-a")
		au := bp.mut(f)
		before := len(w.Mem.PARSessions)
		out := w.PAR(f, au)
		c.Case(fmt.Sprintf("push invalid=%s refused=%v err=%s", bp.name, out.Err != nil, out.ErrName))
		c.Count("c17_push_refused", 1)
		hist = append(hist, fmt.Sprintf("push %s => %s", bp.name, world.ErrDetail(out.Err)))
		if out.Err == nil || out.S("request_uri") != "" {
			viol("invalid-push-accepted", bp.name, "the push endpoint accepted a request that fails "+bp.name)
		}
		if len(w.Mem.PARSessions) != before {
			viol("invalid-push-stored", bp.name, "a refused push left a stored request")
		}
		// ---- valid pushes
		var ps []*pushed
		for k := 0; k < 2+r.Intn(3); k++ {
			client := pick(r, []string{"conf-a", "conf-b", "pub-c", "rich-d"})
			f := goodForm(client)
			if k%2 == 1 {
				f.Set("response_mode", "form_post")
				if client != "rich-d" {
					f.Del("response_mode")
				}
			}
			if k == 2 {
				// an empty request_uri parameter rides along in the push (only a non-empty one makes the push invalid)
				f["request_uri"] = []string{""}
			}
			out := w.PAR(f, authFor(w, client))
			hist = append(hist, fmt.Sprintf("push client=%s rt=%q empty-request_uri-param=%v => %s %s", client, f.Get("response_type"), k == 2, out.S("request_uri"), world.ErrDetail(out.Err)))
			if out.Err != nil && k == 2 {
				c.Unspecified("push-with-empty-request_uri-parameter-refused")
				continue
			}
			if out.Err != nil {
				c.Inconcl("valid push refused: " + world.ErrDetail(out.Err))
				continue
			}
			u := out.S("request_uri")
			if !strings.HasPrefix(u, effPrefix) {
				viol("request-uri-prefix", "", "request_uri "+u+" lacks the configured prefix "+effPrefix)
			}
			if ei, ok := out.Num("expires_in"); !ok || time.Duration(ei)*time.Second != effLife {
				viol("advertised-lifetime", "request_uri", fmt.Sprintf("expires_in=%v configured %s", out.JSON["expires_in"], effLife))
			}
			for _, o := range ps {
				if o.uri == u {
					viol("request-uri-repeated", "", "two pushes returned the same request_uri")
				}
			}
			ps = append(ps, &pushed{uri: u, client: client, form: f, exp: time.Now().Add(effLife)})
		}
		// ---- uses
		use := func(p *pushed, as string, extra url.Values) *world.AuthzOut {
			q := url.Values{"client_id": {as}, "request_uri": {p.uri}}
			for k, v := range extra {
				q[k] = v
			}
			return w.Authorize(q, world.Consent{})
		}
		steps := 3 + r.Intn(6)
		for s := 0; s < steps && len(ps) > 0; s++ {
			p := pick(r, ps)
			now := time.Now()
			expired := now.After(p.exp)
			boundary := now.Equal(p.exp)
			kind := pick(r, []string{"right", "right", "right-with-conflicts", "right-with-conflicts", "wrong-client", "advance", "twice"})
			if kind == "advance" {
				d := pick(r, []time.Duration{time.Second, 30 * time.Second, effLife - time.Second, effLife, effLife + time.Second})
				world.Sleep(d)
				hist = append(hist, fmt.Sprintf("advance %s", d))
				continue
			}
			as := p.client
			extra := url.Values{}
			field := ""
			if kind == "wrong-client" {
				as = pick(r, removeStr([]string{"conf-a", "conf-b", "pub-c", "rich-d"}, p.client))
				if twins && (s+gi)%2 == 0 {
					as = strings.ToUpper(p.client) // decided without the generator, so that the other steps of the history stay as they were
					c.Count("c17_case_twin_attempts", 1)
				}
			}
			if kind == "right-with-conflicts" {
				field = pick(r, []string{"redirect_uri", "response_type", "response_mode", "scope", "state", "audience", "custom_param", "nonce"})
				switch field {
				case "redirect_uri":
					extra.Set(field, "https://evil.example/cb")
				case "response_type":
					extra.Set(field, pick(r, []string{"token", "id_token token", "code token"}))
				case "response_mode":
					extra.Set(field, pick(r, []string{"query", "fragment"}))
				case "scope":
					extra.Set(field, "offline photos profile")
				case "state":
					extra.Set(field, "attacker-state-0123456789")
				case "audience":
					extra.Set(field, "https://api.example/shared")
				case "custom_param":
					extra.Set(field, "query-value")
				case "nonce":
					extra.Set(field, "attacker-nonce-0123456789")
				}
				c.Count("c17_override_attempts", 1)
			}
			out := use(p, as, extra)
			ok := out.Err == nil && (out.Params.Get("code") != "" || out.Params.Get("access_token") != "")
			st := "fresh"
			switch {
			case p.used:
				st = "used"
			case p.burned:
				st = "burned"
			case expired:
				st = "expired"
			case boundary:
				st = "boundary"
			}
			hist = append(hist, fmt.Sprintf("use %s as=%s kind=%s state=%s extra=%v => ok=%v %s", p.uri[len(effPrefix):len(effPrefix)+6], as, kind, st, extra, ok, world.ErrDetail(out.Err)))
			c.Case(fmt.Sprintf("use kind=%s state=%s field=%s ok=%v err=%s enforce=%v", kind, st, field, ok, out.ErrName, enforce))
			switch {
			case p.used:
				c.Count("c17_second_use_refused", 1)
				if ok {
					viol("request-uri-used-twice", "", "a request_uri started a second authorization")
				}
			case as != p.client:
				if ok {
					viol("request-uri-cross-client", "", "a request_uri pushed by "+p.client+" started an authorization for "+as)
				}
				p.burned = true
			case expired:
				if ok {
					viol("alive:expired", "request_uri", "a request_uri was honoured after its expiry")
				}
				p.burned = true
			case p.burned || boundary:
				c.Unspecified("request-uri-after-foreign-attempt-or-at-boundary")
				if ok {
					p.used = true
				}
			default:
				if !ok {
					c.Count("c17_rightful_use_refused:"+out.ErrName, 1)
					// an error produced after the PAR was loaded consumes it as well
					p.burned = true
					break
				}
				p.used = true
				c.Count("c17_uses_ok", 1)
				c17Authoritative(c, viol, p, out, field)
				// the code is bound to the PUSHED redirect_uri, whatever was sent alongside the request_uri
				if code := out.Params.Get("code"); code != "" {
					bad := w.Token(url.Values{"grant_type": {"authorization_code"}, "code": {code}, "redirect_uri": {"https://evil.example/cb"}}, authFor(w, p.client))
					if bad.Err == nil {
						viol("par-not-authoritative", "token-endpoint-redirect-binding", "a code obtained through PAR was redeemed with a redirect_uri other than the pushed one (query alongside: "+extra.Encode()+")")
					} else {
						good := w.Token(url.Values{"grant_type": {"authorization_code"}, "code": {code}, "redirect_uri": {p.form.Get("redirect_uri")}}, authFor(w, p.client))
						c.Case(fmt.Sprintf("par code redeemed with the pushed redirect_uri ok=%v err=%s field=%s", good.Err == nil, good.ErrName, field))
						if good.Err != nil && bad.ErrName != "invalid_grant" {
							c.Count("c17_code_redeem_refused:"+good.ErrName, 1)
						}
						if good.Err != nil && good.ErrName == "invalid_grant" && field == "redirect_uri" {
							viol("par-not-authoritative", "token-endpoint-redirect-binding", "the code is not redeemable with the pushed redirect_uri after a conflicting redirect_uri was sent alongside the request_uri: "+world.ErrDetail(good.Err))
						}
					}
				}
			}
		}
		// ---- a push authenticated as one client (header) while naming another client in the body: whatever request_uri comes
		// back belongs to the AUTHENTICATED client and must not start an authorization for the named one
		{
			f := goodForm("conf-b")
			out := w.PAR(f, world.Basic("conf-a", "secret-of-a"))
			c.Case(fmt.Sprintf("push header-client=conf-a body-client_id=conf-b accepted=%v err=%s", out.Err == nil, out.ErrName))
			hist = append(hist, fmt.Sprintf("push authenticated as conf-a with client_id=conf-b in the body => %s %s", out.S("request_uri"), world.ErrDetail(out.Err)))
			if out.Err == nil {
				az := w.Authorize(url.Values{"client_id": {"conf-b"}, "request_uri": {out.S("request_uri")}}, world.Consent{})
				okB := az.Err == nil && (az.Params.Get("code") != "" || az.Params.Get("access_token") != "")
				hist = append(hist, fmt.Sprintf("use as conf-b => ok=%v %s", okB, world.ErrDetail(az.Err)))
				if okB {
					viol("request-uri-cross-client", "pushed-by-header-client-used-for-body-client", "a request pushed by conf-a (authenticated in the Authorization header) started an authorization for conf-b, named only in the body")
				}
			}
			c.Count("c17_header_body_mismatch_pushes", 1)
			// the same with client_id given twice: the foreign id first (the one the request is validated and filed under), the
			// authenticated client's own id second
			f2 := goodForm("conf-b")
			f2["client_id"] = []string{"conf-b", "conf-a"}
			out2 := w.PAR(f2, world.Basic("conf-a", "secret-of-a"))
			c.Case(fmt.Sprintf("push header-client=conf-a body-client_id=[conf-b conf-a] accepted=%v err=%s", out2.Err == nil, out2.ErrName))
			hist = append(hist, fmt.Sprintf("push authenticated as conf-a with client_id=conf-b&client_id=conf-a in the body => %s %s", out2.S("request_uri"), world.ErrDetail(out2.Err)))
			if out2.Err == nil {
				az := w.Authorize(url.Values{"client_id": {"conf-b"}, "request_uri": {out2.S("request_uri")}}, world.Consent{})
				if az.Err == nil && (az.Params.Get("code") != "" || az.Params.Get("access_token") != "") {
					viol("request-uri-cross-client", "pushed-by-header-client-used-for-body-client (client_id repeated)", "a request pushed by conf-a started an authorization for conf-b, named in the first of two client_id parameters")
				}
			}
			c.Count("c17_header_body_mismatch_pushes", 1)
		}
		// ---- a push that carries a signed OpenID Connect request object whose client_id claim names ANOTHER client: the claims
		// end up in the stored form, the request still belongs to the client that pushed (and signed) it
		{
			keys := world.GetKeys()
			w.AddClient(world.ClientSpec{ID: "ro-par", Kind: "oidc", Secret: "s-ro-par", AuthMethod: "client_secret_basic", ReqObjAlg: "RS256",
				JWKS:         &jose.JSONWebKeySet{Keys: []jose.JSONWebKey{{Key: &keys.ClientRSA[0].PublicKey, KeyID: "k0", Algorithm: "RS256", Use: "sig"}}},
				RedirectURIs: []string{"https://app-b.example/cb", "https://ro-par.example/cb"}, GrantTypes: world.AllGrants, ResponseTypes: world.AllResponseTypes, Scopes: []string{"openid", "fosite", "offline"}})
			for _, inObj := range []string{"conf-b", "ro-par"} {
				obj := world.SignJWT(keys.ClientRSA[0], "RS256", map[string]interface{}{"kid": "k0"}, map[string]interface{}{"iss": "ro-par", "aud": world.Issuer, "client_id": inObj, "response_type": "code",
					"scope": "openid fosite", "state": "object-state-0123456789", "redirect_uri": "https://app-b.example/cb", "nonce": "nonce-0123456789", "exp": time.Now().Add(time.Hour).Unix()})
				out := w.PAR(url.Values{"response_type": {"code"}, "scope": {"openid fosite"}, "state": {"state-0123456789"}, "redirect_uri": {"https://app-b.example/cb"}, "nonce": {"nonce-0123456789"}, "request": {obj}}, world.Basic("ro-par", "s-ro-par"))
				c.Case(fmt.Sprintf("push with request object client_id-claim=%s by ro-par accepted=%v err=%s", inObj, out.Err == nil, out.ErrName))
				hist = append(hist, fmt.Sprintf("push by ro-par with a signed request object naming client_id=%s => %s %s", inObj, out.S("request_uri"), world.ErrDetail(out.Err)))
				c.Count("c17_request_object_pushes", 1)
				if out.Err != nil {
					continue
				}
				as := "conf-b"
				az := w.Authorize(url.Values{"client_id": {as}, "request_uri": {out.S("request_uri")}}, world.Consent{})
				okB := az.Err == nil && (az.Params.Get("code") != "" || az.Params.Get("access_token") != "")
				hist = append(hist, fmt.Sprintf("use as %s => ok=%v %s", as, okB, world.ErrDetail(az.Err)))
				if okB {
					viol("request-uri-cross-client", "pushed-with-request-object-naming-another-client", "a request pushed by ro-par (request object with client_id="+inObj+") started an authorization for conf-b")
				}
			}
		}
		// ---- unknown / foreign-prefix URIs and enforcement
		for _, u := range []string{effPrefix + "does-not-exist", "urn:ietf:params:oauth:request_uri:" + "AAAA", "urn:other:prefix:xyz", effPrefix} {
			out := w.Authorize(url.Values{"client_id": {"conf-a"}, "request_uri": {u}, "response_type": {"code"}, "scope": {"fosite"}, "state": {"state-0123456789"}, "redirect_uri": {"https://app-a.example/cb"}}, world.Consent{})
			ok := out.Err == nil && out.Params.Get("code") != ""
			isPARPrefix := strings.HasPrefix(u, effPrefix)
			c.Case(fmt.Sprintf("unknown-uri par-prefix=%v enforce=%v ok=%v err=%s", isPARPrefix, enforce, ok, out.ErrName))
			if ok && (isPARPrefix || enforce) {
				viol("unknown-request-uri-accepted", fmt.Sprintf("prefix=%v enforce=%v", isPARPrefix, enforce), "authorization proceeded with request_uri "+u)
			}
		}
		out2 := w.Authorize(url.Values{"client_id": {"conf-a"}, "response_type": {"code"}, "scope": {"fosite"}, "state": {"state-0123456789"}, "redirect_uri": {"https://app-a.example/cb"}}, world.Consent{})
		ok2 := out2.Err == nil && out2.Params.Get("code") != ""
		c.Case(fmt.Sprintf("plain-authorize enforce=%v ok=%v", enforce, ok2))
		if enforce && ok2 {
			viol("enforcement-bypassed", "", "an authorization request without request_uri was accepted although pushing is enforced")
		}
		if i < 2 {
			c.Sample(map[string]interface{}{"enforce": enforce, "prefix": effPrefix, "history": hist})
		}
	}
}

// c17Authoritative compares the authorization that proceeded with what was pushed.
func c17Authoritative(c *run.Ctx, viol func(kind, key, detail string), p *pushed, out *world.AuthzOut, conflicted string) {
	ar := out.Req
	if ar == nil {
		return
	}
	pf := p.form
	if ar.GetRedirectURI() == nil {
		viol("par-not-authoritative", "redirect_uri", "no redirect URI")
	} else {
		// the writer appends the response parameters to this very URL object: compare without query and fragment
		u := *ar.GetRedirectURI()
		u.RawQuery, u.Fragment, u.RawFragment = "", "", ""
		if u.String() != pf.Get("redirect_uri") {
			viol("par-not-authoritative", "redirect_uri", fmt.Sprintf("authorization proceeds with redirect %s, pushed %s", u.String(), pf.Get("redirect_uri")))
		}
	}
	if out.Kind == "redirect" && out.Target != nil {
		t := *out.Target
		t.RawQuery, t.Fragment = "", ""
		if t.String() != pf.Get("redirect_uri") {
			viol("par-not-authoritative", "redirect-target", "redirected to "+t.String()+", pushed "+pf.Get("redirect_uri"))
		}
	}
	if setKey(strings.Join(ar.GetResponseTypes(), " ")) != setKey(pf.Get("response_type")) {
		viol("par-not-authoritative", "response_type", fmt.Sprintf("response types %v, pushed %q", ar.GetResponseTypes(), pf.Get("response_type")))
	}
	if ar.GetState() != pf.Get("state") || out.Params.Get("state") != pf.Get("state") {
		viol("par-not-authoritative", "state", fmt.Sprintf("state %q / echoed %q, pushed %q", ar.GetState(), out.Params.Get("state"), pf.Get("state")))
	}
	want := strings.Fields(pf.Get("scope"))
	got := append([]string(nil), ar.GetRequestedScopes()...)
	sort.Strings(want)
	sort.Strings(got)
	if strings.Join(want, " ") != strings.Join(got, " ") {
		viol("par-not-authoritative", "scope", fmt.Sprintf("requested scopes %v, pushed %v", got, want))
	}
	if a := ar.GetRequestedAudience(); len(a) != 1 || a[0] != pf.Get("audience") {
		viol("par-not-authoritative", "audience", fmt.Sprintf("requested audience %v, pushed %q", a, pf.Get("audience")))
	}
	if pm := pf.Get("response_mode"); pm != "" {
		if string(ar.GetResponseMode()) != pm {
			viol("par-not-authoritative", "response_mode", fmt.Sprintf("response mode %q, pushed %q", ar.GetResponseMode(), pm))
		}
	} else {
		// no explicit mode pushed: the flow's default applies, a query parameter must not pick another one
		wantKind := "redirect"
		if out.Kind != wantKind {
			viol("par-not-authoritative", "response_mode", "response delivered as "+out.Kind+" although no response_mode was pushed")
		}
		if conflicted == "response_mode" && out.Kind == "redirect" {
			rt := setKey(pf.Get("response_type"))
			inQuery := out.Query.Get("code") != "" || out.Query.Get("access_token") != ""
			if rt == "code" && !inQuery || rt != "code" && inQuery {
				viol("par-not-authoritative", "response_mode-default", "a response_mode query parameter changed where the response parameters are delivered")
			}
		}
	}
	for _, k := range []string{"custom_param", "nonce", "redirect_uri", "scope", "state", "response_type"} {
		if ar.GetRequestForm().Get(k) != pf.Get(k) {
			viol("par-not-authoritative", "form:"+k, fmt.Sprintf("form value %s=%q, pushed %q", k, ar.GetRequestForm().Get(k), pf.Get(k)))
		}
	}
	_ = fosite.ErrInvalidRequest
}
