// Package mon holds one workload + oracle per property.
package mon

import (
	"math/rand"
	"net/url"
	"time"

	"github.com/ory/fosite"

	"fverif/run"
	"fverif/sim"
	"fverif/world"
)

var Registry = map[string]func(*run.Ctx){}

// worldVariant is a deterministic function of an index: token strategy,
// refresh-scope configuration, store mode, lifetimes.
type worldVariant struct {
	JWT     bool
	Refresh string // "default" | "none" | "custom"
	DB      bool
	Hydrate bool
	Short   bool
	// Retired: a second revocation handler for a retired token family is registered in front of the provider's own
	Retired bool
}

func (v worldVariant) String() string {
	s := "hmac"
	if v.JWT {
		s = "jwt"
	}
	s += " refresh-scopes=" + v.Refresh
	if v.DB && v.Hydrate {
		s += " store=db(hydrating)"
	} else if v.DB {
		s += " store=db"
	} else {
		s += " store=reference"
	}
	if v.Short {
		s += " short-lifetimes"
	}
	if v.Retired {
		s += " two-revocation-handlers"
	}
	return s
}

func variant(i int) worldVariant {
	return worldVariant{JWT: i%2 == 1, Refresh: []string{"default", "none", "custom"}[(i/2)%3], DB: (i/6)%3 == 2, Hydrate: (i/6)%3 == 2 && (i/18)%2 == 0, Short: (i/18)%2 == 1, Retired: (i/4)%3 == 1}
}

func (v worldVariant) build(extra func(*fosite.Config)) *world.World {
	return world.New(world.Opts{JWTAccess: v.JWT, Mode: world.Mode{DB: v.DB, Hydrate: v.Hydrate}, RetiredRevoker: v.Retired, Cfg: func(c *fosite.Config) {
		switch v.Refresh {
		case "none":
			c.RefreshTokenScopes = []string{}
		case "custom":
			c.RefreshTokenScopes = []string{"photos"}
		}
		if v.Short {
			c.AccessTokenLifespan = 5 * time.Minute
			c.AuthorizeCodeLifespan = 2 * time.Minute
			c.RefreshTokenLifespan = 3 * time.Hour
		}
		if extra != nil {
			extra(c)
		}
	}})
}

var scopePool = []string{"openid", "offline", "offline_access", "fosite", "photos", "profile"}

func pick[T any](r *rand.Rand, xs []T) T { return xs[r.Intn(len(xs))] }

func subset(r *rand.Rand, xs []string, p float64) []string {
	var o []string
	for _, x := range xs {
		if r.Float64() < p {
			o = append(o, x)
		}
	}
	return o
}

func has(xs []string, x string) bool {
	for _, y := range xs {
		if y == x {
			return true
		}
	}
	return false
}

func addUnique(xs []string, x string) []string {
	if has(xs, x) {
		return xs
	}
	return append(xs, x)
}

// weights of random steps
type Weights struct {
	Authorize, Redeem, Refresh, Revoke, Other, Advance int
}

var defaultWeights = Weights{Authorize: 3, Redeem: 4, Refresh: 6, Revoke: 2, Other: 1, Advance: 2}

var clientIDs = []string{"conf-a", "conf-b", "pub-c", "rich-d"}

func randAuthz(s *sim.Sim, r *rand.Rand) *sim.Grant {
	cl := pick(r, clientIDs)
	rts := []string{"code", "code", "code", "code id_token", "code token", "code id_token token", "token", "id_token token"}
	rt := pick(r, rts)
	sc := subset(r, scopePool, 0.5)
	if r.Intn(10) < 7 {
		sc = addUnique(sc, "offline")
	}
	if rt != "code" && rt != "token" && rt != "code token" {
		sc = addUnique(sc, "openid")
	}
	aud := subset(r, s.W.Specs[cl].Audience, 0.5)
	red := ""
	if rt == "code" && !has(sc, "openid") && len(s.W.Specs[cl].RedirectURIs) == 1 && r.Intn(4) == 0 {
		red = "-"
	}
	return s.Authorize(sim.AuthzReq{Client: cl, RT: rt, Scopes: sc, Aud: aud, Redirect: red, Subject: pick(r, []string{"user-1", "user-2", "user-3"})})
}

func otherClient(r *rand.Rand, not string) string {
	for {
		c := pick(r, clientIDs)
		if c != not {
			return c
		}
	}
}

func randStep(s *sim.Sim, r *rand.Rand, w Weights) {
	total := w.Authorize + w.Redeem + w.Refresh + w.Revoke + w.Other + w.Advance
	x := r.Intn(total)
	switch {
	case x < w.Authorize:
		randAuthz(s, r)
	case x < w.Authorize+w.Redeem:
		var cs []*sim.Grant
		for _, g := range s.Grants {
			if g.Code != nil {
				cs = append(cs, g)
			}
		}
		if len(cs) == 0 {
			randAuthz(s, r)
			return
		}
		// prefer unused codes
		g := pick(r, cs)
		for i := 0; i < 3 && g.Code.Used; i++ {
			g = pick(r, cs)
		}
		o := sim.RedeemOpts{}
		switch r.Intn(12) {
		case 0:
			o.As = otherClient(r, g.Client)
		case 1:
			wrong := "https://evil.example/cb"
			o.Redirect = &wrong
		}
		s.Redeem(g, o)
	case x < w.Authorize+w.Redeem+w.Refresh:
		var rs []*sim.Tok
		for _, t := range s.Toks {
			if t.Kind == "refresh" {
				rs = append(rs, t)
			}
		}
		if len(rs) == 0 {
			randAuthz(s, r)
			return
		}
		t := pick(r, rs)
		if r.Intn(10) < 6 {
			// latest of a random grant
			t = pick(r, rs).Grant.Latest
		}
		as := ""
		var extra url.Values
		if r.Intn(14) == 0 {
			as = otherClient(r, t.Grant.Client)
			if r.Intn(2) == 0 {
				// the foreign client authenticates as itself (header) while naming the owner in the body
				extra = url.Values{"client_id": {t.Grant.Client}}
			}
		}
		s.Refresh(t, as, extra)
	case x < w.Authorize+w.Redeem+w.Refresh+w.Revoke:
		if len(s.Toks) == 0 {
			randAuthz(s, r)
			return
		}
		t := pick(r, s.Toks)
		as, bad := "", false
		switch r.Intn(10) {
		case 0, 1:
			as = otherClient(r, t.Grant.Client)
		case 2:
			bad = !s.W.Specs[t.Grant.Client].Public
		}
		s.Revoke(t, as, pick(r, []string{"", "access_token", "refresh_token", "garbage"}), bad)
	case x < w.Authorize+w.Redeem+w.Refresh+w.Revoke+w.Other:
		switch r.Intn(3) {
		case 0:
			s.Password(pick(r, []string{"conf-a", "conf-b", "rich-d"}), addUnique(subset(r, scopePool[1:], 0.4), "offline"))
		case 1:
			cl := pick(r, []string{"conf-a", "conf-b", "rich-d"})
			s.ClientCredentials(cl, subset(r, scopePool[3:], 0.5), subset(r, s.W.Specs[cl].Audience, 0.5))
		case 2:
			s.DeviceGrant(pick(r, []string{"conf-a", "pub-c"}), addUnique(subset(r, scopePool, 0.4), "offline"))
		}
	default:
		ds := []time.Duration{time.Second, 30 * time.Second, 90 * time.Second, 4 * time.Minute, 11 * time.Minute, 16 * time.Minute, 50 * time.Minute, 61 * time.Minute, 3 * time.Hour}
		if r.Intn(40) == 0 {
			ds = append(ds, 31*24*time.Hour)
		}
		s.Advance(pick(r, ds))
	}
}

func sample(s *sim.Sim, v worldVariant) map[string]interface{} {
	h := s.Hist
	if len(h) > 25 {
		h = h[:25]
	}
	return map[string]interface{}{"world": v.String(), "history_prefix": h}
}
