package mon

import (
	"encoding/json"
	"fmt"
	"net/url"
	"sort"
	"strings"
	"time"

	"github.com/go-jose/go-jose/v3"

	"github.com/ory/fosite"

	"fverif/run"
	"fverif/world"
)

func init() { Registry["C13"] = C13 }

type c13Reg struct {
	RTs    []string
	Modes  string // "none" (client type without response modes) | "query" | "fragment+form_post" | "all"
	Grants string // "all" | "no-implicit" | "no-code"
	Public bool
}

func (r c13Reg) String() string {
	return fmt.Sprintf("rts=%q modes=%s grants=%s public=%v", r.RTs, r.Modes, r.Grants, r.Public)
}

func setKey(s string) string {
	f := strings.Fields(s)
	m := map[string]bool{}
	for _, x := range f {
		m[x] = true
	}
	var o []string
	for x := range m {
		o = append(o, x)
	}
	sort.Strings(o)
	return strings.Join(o, " ")
}

func strN(n int, prefix string) string {
	s := prefix + "0123456789abcdefghij"
	if n > len(s) {
		n = len(s)
	}
	return s[:n]
}

func C13(c *run.Ctx) {
	c.Need("c13_rule_broken_refused", 1)
	c.Need("c13_accepted", 1)
	c.Need("c13_tokens_placed", 1)
	regRTs := [][]string{{"code"}, {"token"}, {"id_token"}, world.AllResponseTypes, {"code id_token"}, {"id_token token", "code token"}}
	var regs []c13Reg
	for _, rts := range regRTs {
		for _, m := range []string{"none", "query", "fragment+form_post", "all"} {
			for _, g := range []string{"all", "no-implicit", "no-code"} {
				for _, p := range []bool{false, true} {
					regs = append(regs, c13Reg{rts, m, g, p})
				}
			}
		}
	}
	rtReqs := []string{"code", "token", "id_token", "id_token token", "token id_token", "code id_token", "id_token code", "code token", "code id_token token", "token code id_token",
		"code code", "Code", "code  token", "", "unknown", "code unknown", "Token ID_TOKEN", "none",
		// one value repeated in two letter cases: as many fields as a registered two-value combination, but another set
		"token TOKEN", "Token token", "code CODE", "ID_TOKEN id_token"}
	modes := []string{"", "query", "fragment", "form_post", "weird"}
	lens := []int{0, 7, 8, 9}
	stride := uint64(1)
	if c.Quick() {
		stride = 40
	} else {
		c.Exhaustive = true
	}
	n := uint64(0)
	for ri, reg := range regs {
		if !c.Mine(ri) {
			continue
		}
		w := world.New(world.Opts{JWTAccess: ri%2 == 1})
		grants := world.AllGrants
		switch reg.Grants {
		case "no-implicit":
			grants = removeStr(world.AllGrants, "implicit")
		case "no-code":
			grants = removeStr(world.AllGrants, "authorization_code")
		}
		sp := world.ClientSpec{ID: "c13", RedirectURIs: []string{"https://c13.example/cb"}, GrantTypes: grants, ResponseTypes: reg.RTs, Scopes: []string{"openid", "fosite", "offline"}, Public: reg.Public}
		if !reg.Public {
			sp.Secret = "s13"
		}
		var allowed []fosite.ResponseModeType
		switch reg.Modes {
		case "none":
			sp.Kind = "plain"
		case "query":
			sp.Kind, allowed = "rm", []fosite.ResponseModeType{fosite.ResponseModeQuery}
		case "fragment+form_post":
			sp.Kind, allowed = "rm", []fosite.ResponseModeType{fosite.ResponseModeFragment, fosite.ResponseModeFormPost}
		case "all":
			sp.Kind, allowed = "rm", world.AllModes
		}
		sp.ResponseModes = allowed
		w.AddClient(sp)
		auth := world.Basic("c13", "s13")
		if reg.Public {
			auth = world.Public("c13")
		}
		regSets := map[string]bool{}
		for _, r := range reg.RTs {
			regSets[setKey(r)] = true
		}
		sampled := false
		for _, rt := range rtReqs {
			for _, mode := range modes {
				for _, sl := range lens {
					for _, nl := range lens {
						for _, openid := range []bool{false, true} {
							for _, redir := range []bool{true, false} {
								n++
								if stride > 1 && mix(n, uint64(c.Seed)+uint64(ri))%stride != 0 {
									continue
								}
								state, nonce := strN(sl, "s"), strN(nl, "n")
								q := url.Values{"client_id": {"c13"}, "response_type": {rt}, "scope": {"fosite"}}
								if openid {
									q.Set("scope", "openid fosite")
								}
								if redir {
									q.Set("redirect_uri", "https://c13.example/cb")
								}
								if mode != "" {
									q.Set("response_mode", mode)
								}
								if sl > 0 {
									q.Set("state", state)
								}
								if nl > 0 {
									q.Set("nonce", nonce)
								} else if (sl+len(rt)+len(mode))%2 == 0 {
									q.Set("nonce", "") // the parameter is present and empty
								}
								// ---- rule table (from the statement)
								var broken []string
								fields := strings.Fields(rt)
								caseVariant := rt != strings.ToLower(rt)
								if !regSets[setKey(rt)] || len(fields) == 0 {
									broken = append(broken, "response_type-not-registered")
								}
								if mode != "" {
									ok := false
									for _, a := range allowed {
										if string(a) == mode {
											ok = true
										}
									}
									if !ok {
										broken = append(broken, "response_mode-not-allowed")
									}
								}
								if sl < 8 {
									broken = append(broken, "state-too-short")
								}
								if openid && !redir {
									broken = append(broken, "openid-without-redirect_uri")
								}
								hasID, hasTok, hasCode := false, false, false
								for _, f := range fields {
									switch f {
									case "id_token":
										hasID = true
									case "token":
										hasTok = true
									case "code":
										hasCode = true
									}
								}
								if hasID && openid && nl < 8 {
									broken = append(broken, "nonce-too-short")
								}
								out := w.Authorize(q, world.Consent{})
								gotCode, gotAT, gotID := out.Params.Get("code"), out.Params.Get("access_token"), out.Params.Get("id_token")
								accepted := out.Err == nil && (gotCode != "" || gotAT != "" || gotID != "")
								c.Case(fmt.Sprintf("rt=%q mode=%s reg-modes=%s grants=%s broken=%v accepted=%v err=%s kind=%s", setKey(rt), mode, reg.Modes, reg.Grants, broken, accepted, out.ErrName, out.Kind))
								c.DisjointN++
								hist := []string{reg.String(), "query: " + q.Encode(), fmt.Sprintf("status=%d kind=%s location=%q err=%s", out.Status, out.Kind, out.Location, world.ErrDetail(out.Err))}
								if len(broken) > 0 {
									if caseVariant && len(broken) == 1 && broken[0] == "response_type-not-registered" && regSets[setKey(strings.ToLower(rt))] {
										c.Unspecified("response_type-case-variant")
									} else {
										c.Count("c13_rule_broken_refused", 1)
										if accepted {
											c.Violate(run.Violation{Kind: "invalid-request-accepted", Key: "invalid-request-accepted " + strings.Join(broken, "+"), Case: fmt.Sprint(n),
												Detail: fmt.Sprintf("request breaking %v was accepted (code=%v access_token=%v id_token=%v)", broken, gotCode != "", gotAT != "", gotID != ""), History: hist})
										}
									}
								} else if accepted {
									c.Count("c13_accepted", 1)
								}
								// grant-type clauses
								if reg.Grants == "no-implicit" && gotAT == "" && gotID != "" && hasCode {
									// hybrid response types deliver an ID Token next to the code; whether that needs the implicit grant is not
									// settled by the statement ("tokens" vs. the code flow's own ID Token): recorded, not judged
									c.Unspecified("id_token-next-to-code-without-implicit-grant")
								} else if reg.Grants == "no-implicit" && (gotAT != "" || gotID != "") {
									c.Violate(run.Violation{Kind: "tokens-without-implicit-grant", Key: "tokens-without-implicit-grant rt=" + setKey(rt), Case: fmt.Sprint(n),
										Detail: "a client lacking the implicit grant received tokens from the authorization endpoint", History: hist})
								}
								if reg.Grants == "no-code" && gotCode != "" {
									form := url.Values{"grant_type": {"authorization_code"}, "code": {gotCode}}
									if redir {
										form.Set("redirect_uri", "https://c13.example/cb")
									}
									t := w.Token(form, auth)
									c.Case(fmt.Sprintf("redeem by client lacking authorization_code grant ok=%v", t.Err == nil))
									if t.Err == nil {
										c.Violate(run.Violation{Kind: "code-redeemed-without-grant", Key: "code-redeemed-without-grant", Case: fmt.Sprint(n),
											Detail: "a client lacking the authorization_code grant turned a code into tokens", History: hist})
									}
								}
								_, _ = hasTok, hasCode
								// placement and state echo
								c13Placement(c, out, state, sl > 0, hist, fmt.Sprint(n))
								if !sampled && accepted {
									sampled = true
									c.Sample(map[string]interface{}{"registration": reg.String(), "request": q.Encode(), "result": out.Kind + " " + out.Location})
								}
							}
						}
					}
				}
			}
		}
	}
	c13RequestObjects(c)
	c13KeyRotation(c)
	c13PARPlacement(c)
	c13ClientGone(c)
}

// c13Placement: access and ID tokens never in the query of a Location; state echoed unchanged.
func c13Placement(c *run.Ctx, out *world.AuthzOut, state string, stateSent bool, hist []string, id string) {
	if out.Kind == "redirect" {
		if out.Query.Get("access_token") != "" || out.Query.Get("id_token") != "" {
			c.Violate(run.Violation{Kind: "token-in-query", Key: "token-in-query", Case: id, Detail: "access_token / id_token delivered in the query string of the redirect: " + out.Location, History: hist})
		}
		if out.Params.Get("access_token") != "" || out.Params.Get("id_token") != "" {
			c.Count("c13_tokens_placed", 1)
		}
	}
	if out.Kind == "form_post" && (out.Params.Get("access_token") != "" || out.Params.Get("id_token") != "") {
		c.Count("c13_tokens_placed", 1)
	}
	if out.Kind == "redirect" || out.Kind == "form_post" {
		echoed, present := out.Params["state"]
		want := ""
		if stateSent {
			want = state
		}
		if !present && want != "" || present && (len(echoed) != 1 || echoed[0] != want) {
			c.Violate(run.Violation{Kind: "state-not-echoed", Key: fmt.Sprintf("state-not-echoed kind=%s error=%v", out.Kind, out.Err != nil), Case: id,
				Detail: fmt.Sprintf("state sent %q, echoed %q", want, echoed), History: hist})
		}
		c.Count("c13_state_echo_checked", 1)
	}
}

// c13RequestObjects: request object / request_uri parameters are honoured only when properly signed / pre-registered.
func c13RequestObjects(c *run.Ctx) {
	keys := world.GetKeys()
	jwks := &jose.JSONWebKeySet{Keys: []jose.JSONWebKey{
		{Key: &keys.ClientRSA[0].PublicKey, KeyID: "k0", Algorithm: "RS256", Use: "sig"},
		{Key: &keys.ClientEC[0].PublicKey, KeyID: "k1", Algorithm: "ES256", Use: "sig"},
	}}
	for ai, regAlg := range []string{"", "RS256", "ES256", "none", "PS256"} {
		if !c.Mine(ai) {
			continue
		}
		w := world.New(world.Opts{})
		w.AddClient(world.ClientSpec{ID: "ro", Kind: "oidc", Secret: "sro", AuthMethod: "client_secret_basic", JWKS: jwks, ReqObjAlg: regAlg, RequestURIs: []string{"https://client.example/ro.jwt"},
			RedirectURIs: []string{"https://ro.example/cb"}, GrantTypes: world.AllGrants, ResponseTypes: world.AllResponseTypes, Scopes: []string{"openid", "fosite", "offline"}})
		w.AddClient(world.ClientSpec{ID: "ro-plain", Secret: "srp", RedirectURIs: []string{"https://ro.example/cb"}, GrantTypes: world.AllGrants, ResponseTypes: world.AllResponseTypes, Scopes: []string{"openid", "fosite"}})
		claims := func() map[string]interface{} {
			return map[string]interface{}{"iss": "ro", "aud": world.Issuer, "client_id": "ro", "response_type": "code", "scope": "openid fosite", "state": "object-state-0123456789",
				"redirect_uri": "https://ro.example/cb", "exp": time.Now().Add(time.Hour).Unix(), "nonce": "nonce-0123456789"}
		}
		type variant struct {
			name     string
			obj      string
			signedBy string // alg actually used with a registered key ("" = not by a registered key)
		}
		vs := []variant{
			{"rs256-registered-kid", world.SignJWT(keys.ClientRSA[0], "RS256", map[string]interface{}{"kid": "k0"}, claims()), "RS256"},
			{"rs256-registered-nokid", world.SignJWT(keys.ClientRSA[0], "RS256", nil, claims()), "RS256"},
			{"ps256-registered", world.SignJWT(keys.ClientRSA[0], "PS256", map[string]interface{}{"kid": "k0"}, claims()), "PS256"},
			{"es256-registered", world.SignJWT(keys.ClientEC[0], "ES256", map[string]interface{}{"kid": "k1"}, claims()), "ES256"},
			{"rs256-foreign-key", world.SignJWT(keys.ClientRSA[1], "RS256", map[string]interface{}{"kid": "k0"}, claims()), ""},
			{"rs256-foreign-key-nokid", world.SignJWT(keys.ClientRSA[1], "RS256", nil, claims()), ""},
			{"rs256-unknown-kid", world.SignJWT(keys.ClientRSA[0], "RS256", map[string]interface{}{"kid": "nope"}, claims()), ""},
			{"es256-foreign-key", world.SignJWT(keys.ClientEC[1], "ES256", map[string]interface{}{"kid": "k1"}, claims()), ""},
			{"alg-none", world.SignJWT(nil, "none", nil, claims()), "none"},
			{"hs256-client-secret", world.SignJWT([]byte("sro-sro-sro-sro-sro-sro-sro-sro-sro"), "HS256", nil, claims()), ""},
			{"hs256-public-key-bytes", world.HS256Raw(map[string]interface{}{"alg": "HS256", "kid": "k0"}, claims(), keys.ClientRSA[0].PublicKey.N.Bytes()), ""},
			{"tampered-payload", func() string {
				t := world.SignJWT(keys.ClientRSA[0], "RS256", map[string]interface{}{"kid": "k0"}, claims())
				p := strings.Split(t, ".")
				cl := claims()
				cl["state"] = "object-state-0123456789"
				cl["scope"] = "openid fosite offline"
				return world.RawJWT(map[string]interface{}{"alg": "RS256", "kid": "k0"}, cl, p[2])
			}(), ""},
			{"short-state-inside-object", world.SignJWT(keys.ClientRSA[0], "RS256", map[string]interface{}{"kid": "k0"}, func() map[string]interface{} { m := claims(); m["state"] = "x"; return m }()), "short-state"},
			{"valid-object-then-later-error", world.SignJWT(keys.ClientRSA[0], "RS256", map[string]interface{}{"kid": "k0"}, func() map[string]interface{} { m := claims(); m["scope"] = "openid not-registered-scope"; return m }()), "later-error"},
			{"garbage", "not.a.jwt", ""},
			{"expired-object", world.SignJWT(keys.ClientRSA[0], "RS256", map[string]interface{}{"kid": "k0"}, func() map[string]interface{} { m := claims(); m["exp"] = time.Now().Add(-time.Hour).Unix(); return m }()), "expired"},
		}
		for _, v := range vs {
			for _, via := range []string{"request", "request_uri-registered", "request_uri-unregistered", "request_uri-case-variant"} {
				for _, client := range []string{"ro", "ro-plain"} {
					q := url.Values{"client_id": {client}, "response_type": {"code"}, "scope": {"openid"}, "state": {"query-state-0123456789"}, "redirect_uri": {"https://ro.example/cb"}}
					switch via {
					case "request":
						q.Set("request", v.obj)
					case "request_uri-registered":
						q.Set("request_uri", "https://client.example/ro.jwt")
					case "request_uri-unregistered":
						q.Set("request_uri", "https://client.example/other.jwt")
					case "request_uri-case-variant":
						q.Set("request_uri", "https://client.example/RO.jwt")
					}
					obj := v.obj
					w.Fetch = func(u string) (int, string) { return 200, obj }
					out := w.Authorize(q, world.Consent{})
					honoured := (out.Params.Get("state") == "object-state-0123456789" || v.signedBy == "short-state" && out.Params.Get("state") == "x") && out.Err == nil
					mayHonour := true
					why := ""
					switch {
					case client == "ro-plain":
						mayHonour, why = false, "client-without-registered-keys"
					case via == "request_uri-unregistered" || via == "request_uri-case-variant":
						mayHonour, why = false, "request_uri-not-registered"
					case v.signedBy == "":
						mayHonour, why = false, "not-signed-by-registered-key"
					case v.signedBy == "expired":
						mayHonour, why = false, "expired-object"
					case v.signedBy == "later-error":
						// signature and registration are fine (where they are), the request then fails scope validation: nothing is
						// honoured, and a redirected error echoes the state the request carries - the one inside the object
						mayHonour, why = false, "later-validation-error"
						if out.Err != nil && (out.Kind == "redirect" || out.Kind == "form_post") && client == "ro" && via != "request_uri-unregistered" && via != "request_uri-case-variant" &&
							(regAlg == "" || regAlg == "RS256") {
							c.Count("c13_object_state_on_error_checked", 1)
							if got := out.Params.Get("state"); got != "object-state-0123456789" {
								c.Violate(run.Violation{Kind: "state-not-echoed", Key: "state-not-echoed request-object state on a redirected error", Detail: fmt.Sprintf("the request object carried state %q, the redirected %s error echoes %q", "object-state-0123456789", out.ErrName, got),
									History: []string{q.Encode(), out.Location}})
							}
						}
					case v.signedBy == "short-state":
						// properly signed, but the state it carries is shorter than the configured minimum: the request is not acceptable
						mayHonour, why = false, "state-below-minimum-inside-object"
					case v.signedBy == "none":
						if regAlg != "" && regAlg != "none" {
							mayHonour, why = false, "unsigned-but-registration-names-algorithm"
						}
					case regAlg != "" && regAlg != v.signedBy:
						mayHonour, why = false, "algorithm-not-the-registered-one"
					}
					c.Case(fmt.Sprintf("request-object variant=%s via=%s client=%s reg-alg=%q may-honour=%v honoured=%v err=%s", v.name, via, client, regAlg, mayHonour, honoured, out.ErrName))
					if !mayHonour {
						c.Count("c13_rule_broken_refused", 1)
						if honoured {
							c.Violate(run.Violation{Kind: "request-object-honoured", Key: "request-object-honoured " + why, Detail: fmt.Sprintf("variant %s via %s client %s (registered alg %q): parameters of the object were honoured", v.name, via, client, regAlg),
								History: []string{q.Encode(), out.Location}})
						}
					} else if honoured {
						c.Count("c13_request_objects_honoured", 1)
					}
				}
			}
		}
	}
}

// c13KeyRotation: a client registered with a jwks_uri rotates its key; once the server has seen the new key set (it had to
// re-read the jwks_uri to verify an object signed with the new key), an object signed with the retired key is not "properly
// signed" any more. Runs over fosite's shipped JWKS fetcher (with its cache) and a stub transport.
func c13KeyRotation(c *run.Ctx) {
	if !c.Mine(4) && c.NShards > 4 {
		return
	}
	keys := world.GetKeys()
	for vi, via := range []string{"request", "request_uri", "par"} {
		w := world.New(world.Opts{RealJWKS: true})
		w.AddClient(world.ClientSpec{ID: "rot", Kind: "oidc", Secret: "srot", AuthMethod: "client_secret_basic", JWKSURI: "https://keys.example/rot/jwks.json", RequestURIs: []string{"https://client.example/rot.jwt"},
			RedirectURIs: []string{"https://rot.example/cb"}, GrantTypes: world.AllGrants, ResponseTypes: world.AllResponseTypes, Scopes: []string{"openid", "fosite", "offline"}})
		var served *jose.JSONWebKeySet
		fetches := 0
		var obj string
		w.Fetch = func(u string) (int, string) {
			if strings.Contains(u, "jwks.json") {
				fetches++
				b, _ := json.Marshal(served)
				return 200, string(b)
			}
			return 200, obj
		}
		n := 0
		present := func(key interface{}, kid string) (bool, string) {
			n++
			st := fmt.Sprintf("rot-state-%d-0123456789", n)
			h := map[string]interface{}{}
			if kid != "" {
				h["kid"] = kid
			}
			obj = world.SignJWT(key, "RS256", h, map[string]interface{}{"iss": "rot", "aud": world.Issuer, "client_id": "rot", "response_type": "code", "scope": "openid fosite", "state": st,
				"redirect_uri": "https://rot.example/cb", "exp": time.Now().Add(time.Hour).Unix(), "nonce": "nonce-0123456789"})
			q := url.Values{"client_id": {"rot"}, "response_type": {"code"}, "scope": {"openid"}, "state": {"query-state-0123456789"}, "redirect_uri": {"https://rot.example/cb"}}
			var out *world.AuthzOut
			switch via {
			case "request":
				q.Set("request", obj)
				out = w.Authorize(q, world.Consent{})
			case "request_uri":
				q.Set("request_uri", "https://client.example/rot.jwt")
				out = w.Authorize(q, world.Consent{})
			default:
				q.Set("request", obj)
				p := w.PAR(q, world.Basic("rot", "srot"))
				if p.Err != nil {
					w.JWKSSettle()
					return false, "push: " + p.ErrName
				}
				out = w.Authorize(url.Values{"client_id": {"rot"}, "request_uri": {p.S("request_uri")}}, world.Consent{})
			}
			w.JWKSSettle()
			return out.Err == nil && out.Params.Get("state") == st, out.ErrName
		}
		k0, k1 := keys.ClientRSA[0], keys.ClientRSA[1]
		var hist []string
		step := func(what string, key interface{}, kid string, must int) bool { // must: 1 honoured, 0 refused
			ok, en := present(key, kid)
			hist = append(hist, fmt.Sprintf("%s => honoured=%v %s (jwks fetches so far %d)", what, ok, en, fetches))
			c.Case(fmt.Sprintf("key-rotation via=%s step=%q honoured=%v", via, what, ok))
			c.Count("c13_rotation_steps", 1)
			switch {
			case must == 0 && ok:
				c.Violate(run.Violation{Kind: "request-object-honoured", Key: "request-object-honoured signed-with-retired-key via=" + via, Detail: what + ": the object's parameters were honoured", History: append([]string(nil), hist...)})
			case must == 1 && !ok:
				c.Count("c13_rotation_rightful_refused", 1)
			}
			return ok
		}
		// every rotation publishes the new key under a new kid (a server that caches key sets learns about a rotation only
		// when it meets a kid it does not know; re-keying under an unchanged kid is outside what the statement promises)
		set := func(pub interface{}, kid string) *jose.JSONWebKeySet {
			return &jose.JSONWebKeySet{Keys: []jose.JSONWebKey{{Key: pub, KeyID: kid, Algorithm: "RS256", Use: "sig"}}}
		}
		served = set(&k0.PublicKey, "kid-1")
		step("object signed with the published key K1", k0, "kid-1", 1)
		step("object signed with an unpublished key K2", k1, "kid-2", 0)
		step("object signed with an unpublished key K2 under the published kid", k1, "kid-1", 0)
		served = set(&k1.PublicKey, "kid-2") // K1 retired
		seen := step("after rotation: object signed with the new key K2", k1, "kid-2", 1)
		if seen {
			step("after the server has seen the rotation: object signed with the retired key K1", k0, "kid-1", 0)
			step("after the server has seen the rotation: object signed with the retired key K1, no kid", k0, "", 0)
			step("object signed with K2 again", k1, "kid-2", 1)
		}
		served = set(&k0.PublicKey, "kid-3")
		seen = step("second rotation: object signed with the new key", k0, "kid-3", 1)
		if seen {
			step("object signed with the key retired by the second rotation", k1, "kid-2", 0)
			step("object signed with the key retired by the second rotation, no kid", k1, "", 0)
		}
		if vi == 0 {
			c.Sample(map[string]interface{}{"key_rotation": hist})
		}
	}
}

// c13PARPlacement: placement rules also hold when the request came through the pushed-authorization endpoint.
func c13PARPlacement(c *run.Ctx) {
	if !c.Mine(3) && c.NShards > 3 {
		return
	}
	w := world.New(world.Opts{})
	w.AddClient(world.ClientSpec{ID: "c13p", Kind: "rich", Secret: "s13p", AuthMethod: "client_secret_basic", RedirectURIs: []string{"https://c13p.example/cb"}, GrantTypes: world.AllGrants,
		ResponseTypes: world.AllResponseTypes, Scopes: []string{"openid", "fosite"}, ResponseModes: world.AllModes})
	a := world.Basic("c13p", "s13p")
	for _, rt := range []string{"code", "token", "id_token", "id_token token", "code id_token", "code token", "code id_token token"} {
		for _, mode := range []string{"", "query", "fragment", "form_post"} {
			f := url.Values{"client_id": {"c13p"}, "response_type": {rt}, "scope": {"openid fosite"}, "state": {"par-state-0123456789"}, "nonce": {"nonce-0123456789"}, "redirect_uri": {"https://c13p.example/cb"}}
			if mode != "" {
				f.Set("response_mode", mode)
			}
			p := w.PAR(f, a)
			if p.Err != nil {
				c.Case(fmt.Sprintf("par-placement rt=%q mode=%s push-refused=%s", rt, mode, p.ErrName))
				continue
			}
			out := w.Authorize(url.Values{"client_id": {"c13p"}, "request_uri": {p.S("request_uri")}}, world.Consent{})
			c.Case(fmt.Sprintf("par-placement rt=%q mode=%s kind=%s err=%s token-in-query=%v", rt, mode, out.Kind, out.ErrName, out.Query.Get("access_token") != "" || out.Query.Get("id_token") != ""))
			c13Placement(c, out, "par-state-0123456789", true, []string{"PAR " + f.Encode(), out.Location}, "par-"+rt+"-"+mode)
		}
	}
}

// c13ClientGone: "accepts a request only if the client exists" also holds for a request that was pushed while the client
// existed and is presented after the client was deleted.
func c13ClientGone(c *run.Ctx) {
	if !c.Mine(4) && c.NShards > 4 {
		return
	}
	w := world.New(world.Opts{})
	w.AddClient(world.ClientSpec{ID: "c13-gone", Secret: "s13g", RedirectURIs: []string{"https://gone.example.org/cb"}, GrantTypes: world.AllGrants, ResponseTypes: world.AllResponseTypes, Scopes: []string{"fosite"}})
	p := w.PAR(url.Values{"response_type": {"code"}, "scope": {"fosite"}, "state": {"state-0123456789"}, "redirect_uri": {"https://gone.example.org/cb"}}, world.Basic("c13-gone", "s13g"))
	if p.Err != nil {
		c.Inconcl("c13 client gone: push failed: " + world.ErrDetail(p.Err))
		return
	}
	delete(w.Mem.Clients, "c13-gone")
	az := w.Authorize(url.Values{"client_id": {"c13-gone"}, "request_uri": {p.S("request_uri")}}, world.Consent{})
	got := az.Err == nil && az.Params.Get("code") != ""
	c.Case(fmt.Sprintf("client-deleted-after-push accepted=%v err=%s", got, az.ErrName))
	c.Count("c13_rule_broken_refused", 1)
	if got {
		c.Violate(run.Violation{Kind: "invalid-request-accepted", Key: "invalid-request-accepted client-does-not-exist (deleted after its request was pushed)",
			Detail: "an authorization code was issued for a client that no longer exists", History: []string{"push by c13-gone", "client deleted", "authorize with the request_uri => " + az.Location}})
	}
}
