package mon

import (
	"encoding/base64"
	"fmt"
	"net/url"
	"sort"
	"strings"
	"time"

	"github.com/ory/fosite"

	"fverif/run"
	"fverif/world"
)

func init() { Registry["C16"] = C16 }

type devReq struct {
	dc, uc   string
	client   string
	decision string // pending | accepted | rejected
	exp      time.Time
	used     bool
	at, rt   string
}

func C16(c *run.Ctx) {
	c.Need("c16_tokens_after_approval", 1)
	c.Need("c16_refused_polls", 1)
	c.Need("c16_replays", 1)
	events := []string{"accept", "reject", "pollR", "pollW", "pollWbody", "pollWpub", "pollRsplit", "expire", "tick", "age2h"}
	maxLen := 4
	if !c.Quick() {
		maxLen = 6
	}
	var seqs [][]string
	var gen func(cur []string)
	gen = func(cur []string) {
		if len(cur) > 0 {
			seqs = append(seqs, append([]string(nil), cur...))
		}
		if len(cur) == maxLen {
			return
		}
		for _, e := range events {
			gen(append(cur, e))
		}
	}
	gen(nil)
	c.Exhaustive = true
	seenCodes := map[string]bool{}
	for si, seq := range seqs {
		if !c.Mine(si) {
			continue
		}
		variant := si % 8
		contract := variant&1 == 1
		withRefresh := variant&2 != 0
		openid := variant&4 != 0
		db := (si/8)%3 == 0
		hydrate := (si/3)%2 == 1
		for _, e := range seq {
			if e == "age2h" {
				// what the long wait is there for: a store that has dropped the expired access-token row and reports "no row"
				// when asked to revoke it, while the refresh token of the same grant lives on
				contract, withRefresh, hydrate = true, true, true
			}
		}
		w := world.New(world.Opts{Mode: world.Mode{ContractDevice: contract, DB: db, Hydrate: hydrate}, JWTAccess: (si/24)%2 == 1, Cfg: func(cfg *fosite.Config) {
			cfg.DeviceAndUserCodeLifespan = 5 * time.Minute
			cfg.TokenEntropy = []int{0, 1, 16, 32, 48}[(si/7)%5] // whatever is configured, codes carry at least 32 random bytes
		}})
		w.AddClient(world.ClientSpec{ID: "pub-x", Public: true, RedirectURIs: []string{"https://app-x.example/cb"}, GrantTypes: world.AllGrants, ResponseTypes: world.AllResponseTypes,
			Scopes: []string{"openid", "offline", "fosite"}})
		w.DeviceFreshSession = (si/5)%2 == 1
		client := []string{"conf-a", "pub-c"}[si%2]
		wrong := "conf-b"
		scope := "fosite"
		if withRefresh {
			scope += " offline"
		}
		if openid {
			scope += " openid"
		}
		w.Store.ResetCalls()
		w.Store.Record = true
		dv := w.Device(url.Values{"client_id": {client}, "scope": {scope}}, authFor(w, client))
		if dv.Err != nil {
			c.Inconcl("device authorization failed: " + world.ErrDetail(dv.Err))
			continue
		}
		d := &devReq{dc: dv.S("device_code"), uc: dv.S("user_code"), client: client, decision: "pending", exp: time.Now().Add(5 * time.Minute)}
		hist := []string{fmt.Sprintf("store contract=%v db=%v refresh=%v openid=%v client=%s fresh-session-at-approval=%v", contract, db, withRefresh, openid, client, w.DeviceFreshSession), "start"}
		// device codes (256 random bits) never repeat; user codes are short by design (8 symbols of a 20-letter alphabet by
		// default), so across the hundreds of thousands of independent worlds of a thorough run two of them may coincide by
		// chance - that is counted, not judged (each world here has a single pending request)
		if seenCodes[d.dc] {
			c.Violate(run.Violation{Kind: "device-code-repeated", Key: "device-code-repeated", Detail: "a device code was handed out twice: " + d.dc})
		}
		if seenCodes["uc:"+d.uc] {
			c.Count("c16_user_code_chance_collisions_across_worlds", 1)
		}
		if len(d.uc) < 8 {
			c.Violate(run.Violation{Kind: "device-code-guessable", Key: "device-code-guessable user code shorter than configured", Detail: "user code " + d.uc})
		}
		seenCodes[d.dc], seenCodes["uc:"+d.uc] = true, true
		if parts := strings.Split(strings.TrimPrefix(d.dc, "ory_dc_"), "."); len(parts) == 2 {
			if raw, err := base64.RawURLEncoding.DecodeString(parts[0]); err != nil || len(raw) < 32 {
				c.Violate(run.Violation{Kind: "device-code-guessable", Key: "device-code-guessable random part shorter than 32 bytes", Detail: fmt.Sprintf("device code %q carries %d random bytes (configured token entropy %d)", d.dc, len(raw), w.Cfg.TokenEntropy)})
			}
		}
		if ei, ok := dv.Num("expires_in"); !ok || int(ei) != 300 {
			c.Violate(run.Violation{Kind: "device-expires-in", Key: "device-expires-in", Detail: fmt.Sprintf("expires_in=%v, configured 300", dv.JSON["expires_in"])})
		}
		poll := func(as string) *world.Out {
			return w.Token(url.Values{"grant_type": {"urn:ietf:params:oauth:grant-type:device_code"}, "device_code": {d.dc}}, authFor(w, as))
		}
		for _, ev := range seq {
			now := time.Now()
			expired := now.After(d.exp)
			boundary := now.Equal(d.exp)
			switch ev {
			case "tick":
				world.Sleep(7 * time.Second)
				hist = append(hist, "advance 7s")
			case "age2h":
				// the access token issued from the code outlives neither this nor (in a store with a TTL) its row; the refresh token does
				world.Sleep(2 * time.Hour)
				hist = append(hist, "advance 2h")
			case "expire":
				if !expired {
					world.Sleep(d.exp.Add(time.Second).Sub(now))
				} else {
					world.Sleep(time.Minute)
				}
				hist = append(hist, "advance past expiry")
			case "accept", "reject":
				if d.decision != "pending" || d.used {
					hist = append(hist, ev+" (ignored: already decided)")
					continue
				}
				err := w.DeviceDecide(d.uc, ev == "accept", "user-dev", nil, openid)
				hist = append(hist, fmt.Sprintf("%s => %v", ev, err))
				c.Case(fmt.Sprintf("decide %s expired=%v ok=%v", ev, expired, err == nil))
				if err == nil {
					d.decision = map[string]string{"accept": "accepted", "reject": "rejected"}[ev]
					if expired {
						c.Violate(run.Violation{Kind: "alive:expired", Key: "alive:expired user_code", Detail: "user code accepted after its expiry", History: hist})
					}
				}
			case "pollR", "pollW", "pollWbody", "pollWpub", "pollRsplit":
				if ev == "pollRsplit" {
					ev = "pollR"
					if d.decision == "accepted" && !d.used && !expired && !boundary {
						// the code expires while the request is being processed: between the two phases of the token endpoint
						out := w.Token(url.Values{"grant_type": {"urn:ietf:params:oauth:grant-type:device_code"}, "device_code": {d.dc}}, authFor(w, client), func(fosite.AccessRequester) {
							world.Sleep(d.exp.Add(time.Second).Sub(time.Now()))
						})
						ok := out.Err == nil && out.S("access_token") != ""
						hist = append(hist, fmt.Sprintf("poll (code expires between request validation and response) => ok=%v %s", ok, world.ErrDetail(out.Err)))
						c.Case(fmt.Sprintf("poll right-client state=accepted expires-mid-request ok=%v err=%s", ok, out.ErrName))
						c.Count("c16_split_phase_polls", 1)
						if ok {
							c.Violate(run.Violation{Kind: "device-tokens-without-right", Key: "device-tokens-without-right expired-mid-request", Case: fmt.Sprint(si),
								Detail: "tokens delivered for a device code that had expired by the time the response was built", History: hist})
							d.used = true
							d.at, d.rt = out.S("access_token"), out.S("refresh_token")
						}
						continue
					}
				}
				as := client
				if ev != "pollR" {
					as = wrong
				}
				var out *world.Out
				if ev == "pollWpub" {
					// a foreign PUBLIC client identifies itself in the Basic header (empty password) and names the right client in the body
					out = w.Token(url.Values{"grant_type": {"urn:ietf:params:oauth:grant-type:device_code"}, "device_code": {d.dc}, "client_id": {client}},
						world.Auth{Mode: "raw", RawHeader: "Basic " + base64.StdEncoding.EncodeToString([]byte("pub-x:"))})
					ev = "pollW"
				} else if ev == "pollWbody" {
					// the wrong client authenticates as itself in the header while naming the right client in the body
					out = w.Token(url.Values{"grant_type": {"urn:ietf:params:oauth:grant-type:device_code"}, "device_code": {d.dc}, "client_id": {client}}, world.Basic(wrong, "secret-of-b"))
					ev = "pollW"
				} else {
					out = poll(as)
				}
				ok := out.Err == nil && out.S("access_token") != ""
				hist = append(hist, fmt.Sprintf("%s => ok=%v %s", ev, ok, world.ErrDetail(out.Err)))
				st := d.decision
				if d.used {
					st = "used"
				}
				c.Case(fmt.Sprintf("poll %s state=%s expired=%v contract=%v ok=%v err=%s", map[bool]string{true: "right-client", false: "wrong-client"}[ev == "pollR"], st, expired, contract, ok, out.ErrName))
				viol := func(kind, key, detail string) {
					c.Violate(run.Violation{Kind: kind, Key: kind + " " + key, Case: fmt.Sprint(si), Detail: detail, History: hist})
				}
				wantClass := ""
				mayTokens := false
				switch {
				case d.used:
					c.Count("c16_replays", 1)
					wantClass = "invalid_grant"
					if expired || boundary {
						wantClass = "" // used and expired: class unspecified
					}
				case ev == "pollW":
					if d.decision == "accepted" && !expired && !boundary {
						wantClass = "invalid_grant"
					}
				case d.decision == "pending":
					if !expired && !boundary {
						wantClass = "authorization_pending"
					}
				case d.decision == "rejected":
					if !expired && !boundary {
						wantClass = "access_denied"
					}
				case d.decision == "accepted":
					if expired {
						wantClass = "expired_token"
					} else {
						mayTokens = true
					}
				}
				if ok && !mayTokens {
					viol("device-tokens-without-right", fmt.Sprintf("state=%s expired=%v wrong-client=%v", st, expired, ev == "pollW"), "tokens issued although the statement forbids it")
				}
				if !ok {
					c.Count("c16_refused_polls", 1)
					if wantClass != "" && out.ErrName != wantClass {
						viol("device-error-class", fmt.Sprintf("state=%s expired=%v wrong-client=%v want=%s got=%s", st, expired, ev == "pollW", wantClass, out.ErrName), "wrong error class: "+world.ErrDetail(out.Err))
					}
					if wantClass == "" {
						// several clauses of the statement apply at once and it does not rank them: the answer has to be the class of ONE
						// of the applicable clauses
						allowed := map[string]bool{}
						if expired || boundary {
							allowed["expired_token"] = true
						}
						if ev == "pollW" {
							allowed["invalid_grant"] = true
						}
						switch {
						case d.used:
							allowed["invalid_grant"] = true
						case d.decision == "pending":
							allowed["authorization_pending"] = true
						case d.decision == "rejected":
							allowed["access_denied"] = true
						}
						if !allowed[out.ErrName] {
							var al []string
							for k := range allowed {
								al = append(al, k)
							}
							sort.Strings(al)
							viol("device-error-class", fmt.Sprintf("state=%s expired=%v wrong-client=%v want-one-of=%v got=%s", st, expired, ev == "pollW", al, out.ErrName), "the answer is none of the classes the applicable clauses name: "+world.ErrDetail(out.Err))
						}
						c.Unspecified("device-state-not-ordered-by-statement")
					}
				}
				if ok {
					if d.used {
						viol("device-code-twice", "contract="+fmt.Sprint(contract), "a device code yielded tokens twice")
					}
					d.used = true
					d.at, d.rt = out.S("access_token"), out.S("refresh_token")
					c.Count("c16_tokens_after_approval", 1)
					if !w.IntrospectAPI(d.at, fosite.AccessToken).Active {
						viol("device-token-inactive", "fresh", "freshly issued access token inactive")
					}
					if withRefresh && d.rt == "" && w.Specs[client].Public == false {
						c.Unspecified("no-refresh-token-although-allowed")
					}
					if openid && out.S("id_token") == "" {
						c.Count("c16_openid_without_id_token", 1)
					}
				} else if d.used && contract && ev == "pollR" {
					// the store reported the code as already used: tokens issued from it are revoked
					if d.at != "" && w.IntrospectAPI(d.at, fosite.AccessToken).Active {
						viol("device-replay-tokens-alive", "access", "the store answered ErrInvalidatedDeviceCode on replay but the access token issued from the code is still active")
					}
					if d.rt != "" && w.IntrospectAPI(d.rt, fosite.RefreshToken).Active {
						viol("device-replay-tokens-alive", "refresh", "the store answered ErrInvalidatedDeviceCode on replay but the refresh token issued from the code is still active")
					}
					c.Count("c16_contract_replays_checked", 1)
				}
			}
		}
		w.Store.Record = false
		// taint: device and user codes reach storage only as signatures
		for _, cl := range w.Store.TakeCalls() {
			for _, k := range cl.Keys {
				if k != "" && (strings.Contains(k, d.dc) || k == d.uc || strings.Contains(k, strings.TrimPrefix(d.dc, "ory_dc_"))) {
					c.Violate(run.Violation{Kind: "device-code-cleartext-in-storage", Key: "device-code-cleartext-in-storage " + cl.Method, Detail: "storage call " + cl.String() + " carries the complete device/user code", History: hist})
				}
			}
			for _, vs := range cl.Form {
				for _, v := range vs {
					if v != "" && (strings.Contains(v, d.dc) || v == d.uc) {
						c.Violate(run.Violation{Kind: "device-code-cleartext-in-storage", Key: "device-code-cleartext-in-stored-form " + cl.Method, Detail: "stored form of " + cl.Method + " carries the complete device/user code", History: hist})
					}
				}
			}
		}
		c.DisjointN++
		if si < 2*c.NShards {
			c.Sample(map[string]interface{}{"sequence": seq, "history": hist})
		}
	}
}
