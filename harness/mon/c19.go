package mon

import (
	"context"
	"fmt"
	"math/rand"
	"net/url"
	"runtime"
	"runtime/debug"
	"sort"
	"strings"
	"sync"
	"sync/atomic"
	"time"

	"github.com/anishathalye/porcupine"

	"github.com/ory/fosite"
	"github.com/ory/fosite/handler/oauth2"
	"github.com/ory/fosite/storage"
	thmac "github.com/ory/fosite/token/hmac"
	"github.com/ory/fosite/token/jwt"

	"fverif/run"
	"fverif/world"
)

func init() {
	Registry["C19stress"] = c19stress
	Registry["C19lin"] = c19lin
	Registry["C19sched"] = c19sched
	Registry["C19gen"] = c19gen
	Registry["C19shared"] = c19shared
}

// c19shared presents the SAME one-time credential (authorization code, device code, request_uri) from several goroutines at
// once. The reference store hands every one of them the same stored request object; what the race detector reports for this
// workload is attributed to that single root cause by the aggregator. Panics and fatal errors are violations as everywhere.
func c19shared(c *run.Ctx) {
	rounds := 40
	if !c.Quick() {
		rounds = 300
	}
	for round := 0; round < rounds; round++ {
		w := world.New(world.Opts{JWTAccess: round%2 == 1})
		a := world.Public("pub-c")
		red := "https://app-c.example/cb"
		az := w.Authorize(url.Values{"client_id": {"pub-c"}, "response_type": {pick(caseRng(c, round), []string{"code", "code id_token", "code token"})}, "scope": {"openid offline fosite"}, "state": {"state-0123456789"},
			"nonce": {"nonce-0123456789"}, "redirect_uri": {red}}, world.Consent{})
		code := az.Params.Get("code")
		dv := w.Device(url.Values{"client_id": {"pub-c"}, "scope": {"offline openid"}}, a)
		_ = w.DeviceDecide(dv.S("user_code"), true, "user-dev", nil, true)
		par := w.PAR(url.Values{"client_id": {"pub-c"}, "response_type": {"code"}, "scope": {"fosite"}, "state": {"state-0123456789"}, "redirect_uri": {red}}, a)
		var wg sync.WaitGroup
		start := make(chan struct{})
		var okCode, okDev, okPar int64
		for g := 0; g < 9; g++ {
			wg.Add(1)
			go func(g int) {
				defer wg.Done()
				defer func() {
					if rec := recover(); rec != nil {
						c.Violate(run.Violation{Kind: "panic", Key: "panic under concurrent use (same credential)", Detail: fmt.Sprintf("%v\n%s", rec, debug.Stack())})
					}
				}()
				<-start
				switch g % 3 {
				case 0:
					if w.Token(url.Values{"grant_type": {"authorization_code"}, "code": {code}, "redirect_uri": {red}}, a).Err == nil {
						atomic.AddInt64(&okCode, 1)
					}
				case 1:
					if w.Token(url.Values{"grant_type": {"urn:ietf:params:oauth:grant-type:device_code"}, "device_code": {dv.S("device_code")}}, a).Err == nil {
						atomic.AddInt64(&okDev, 1)
					}
				case 2:
					if o := w.Authorize(url.Values{"client_id": {"pub-c"}, "request_uri": {par.S("request_uri")}}, world.Consent{}); o.Err == nil {
						atomic.AddInt64(&okPar, 1)
					}
				}
			}(g)
		}
		close(start)
		wg.Wait()
		c.Eval(9)
		c.Case(fmt.Sprintf("same-credential burst: code successes=%d device successes=%d request_uri successes=%d", okCode, okDev, okPar))
		c.Count("c19_same_credential_bursts", 1)
		if round%8 == 0 {
			// the same root cause reached through a READ-ONLY operation: one access token introspected over HTTP by several
			// callers at once. The reference store hands every caller the stored request object; with the shipped
			// fosite.DefaultSession the first GetExtraClaims allocates the session's map lazily, on the shared object.
			w2 := world.New(world.Opts{SessFactory: func(sub string) fosite.Session { return &fosite.DefaultSession{Subject: sub} }})
			ca := world.Basic("conf-a", "secret-of-a")
			tk := w2.Token(url.Values{"grant_type": {"password"}, "username": {world.UserName}, "password": {world.UserPass}, "scope": {"offline fosite"}}, ca)
			var wg2 sync.WaitGroup
			start2 := make(chan struct{})
			var active int64
			for g := 0; g < 6; g++ {
				wg2.Add(1)
				go func() {
					defer wg2.Done()
					<-start2
					if out := w2.IntrospectHTTP(url.Values{"token": {tk.S("access_token")}}, ca, ""); out.Err == nil {
						atomic.AddInt64(&active, 1)
					}
				}()
			}
			close(start2)
			wg2.Wait()
			c.Eval(6)
			c.Case(fmt.Sprintf("same-token introspection burst (shipped DefaultSession): answered=%d of 6", active))
			c.Count("c19_same_token_introspection_bursts", 1)
		}
	}
	c.Sample(map[string]interface{}{"same_credential_bursts": rounds, "goroutines_per_burst": 9})
}

// ---------------------------------------------------------------------------
// 1. free-running stress under the race detector

type pool struct {
	mu    sync.Mutex
	codes []string
	rts   []string
	ats   []string
	devs  []string
	pars  []string
	// every value handed out by the provider in this round (each add is one issuance)
	seen   map[string]bool
	issued int64
	dups   []string
}

func (p *pool) add(l *[]string, v string) {
	if v == "" {
		return
	}
	p.mu.Lock()
	if p.seen == nil {
		p.seen = map[string]bool{}
	}
	p.issued++
	if p.seen[v] {
		p.dups = append(p.dups, v)
	}
	p.seen[v] = true
	*l = append(*l, v)
	if len(*l) > 40 {
		*l = (*l)[len(*l)-40:]
	}
	p.mu.Unlock()
}

// take removes and returns a random element: one-time credentials are presented by exactly one goroutine here
// (the same-credential case is the business of C19shared)
func (p *pool) take(r *rand.Rand, l *[]string) string {
	p.mu.Lock()
	defer p.mu.Unlock()
	if len(*l) == 0 {
		return ""
	}
	i := r.Intn(len(*l))
	v := (*l)[i]
	*l = append((*l)[:i], (*l)[i+1:]...)
	return v
}

func (p *pool) pick(r *rand.Rand, l *[]string) string {
	p.mu.Lock()
	defer p.mu.Unlock()
	if len(*l) == 0 {
		return ""
	}
	return (*l)[r.Intn(len(*l))]
}

// c19Abandoned: a token request that is given up between its two phases (after the integrator has put its own claims into
// the request's session, as the API invites it to) must leave no trace: what the server reports about the stored tokens of
// the grant, and what later requests mint from them, is what it was before. Runs over the three session types fosite ships;
// a session Clone that shares a map with the stored session it was cloned from shows here without any concurrency (and as a
// data race under it).
func c19Abandoned(c *run.Ctx) {
	type kind struct {
		name    string
		jwt     bool
		factory func(sub string) fosite.Session
		extra   func(s fosite.Session) map[string]interface{}
	}
	kinds := []kind{
		{"fosite.DefaultSession", false, func(sub string) fosite.Session { return &fosite.DefaultSession{Subject: sub} },
			func(s fosite.Session) map[string]interface{} { return s.(*fosite.DefaultSession).GetExtraClaims() }},
		{"oauth2.JWTSession", true, func(sub string) fosite.Session {
			return &oauth2.JWTSession{JWTClaims: &jwt.JWTClaims{Subject: sub, Extra: map[string]interface{}{}}, JWTHeader: &jwt.Headers{Extra: map[string]interface{}{}}, Subject: sub}
		}, func(s fosite.Session) map[string]interface{} { return s.(*oauth2.JWTSession).JWTClaims.Extra }},
		{"openid.DefaultSession (harness wrapper)", false, nil, func(s fosite.Session) map[string]interface{} { return s.(*world.Sess).Claims.Extra }},
		{"openid.DefaultSession (harness wrapper), JWT access tokens", true, nil, func(s fosite.Session) map[string]interface{} {
			return s.(*world.Sess).GetJWTClaims().(*jwt.JWTClaims).Extra
		}},
	}
	for _, k := range kinds {
		w := world.New(world.Opts{JWTAccess: k.jwt, SessFactory: k.factory})
		a := world.Basic("conf-a", "secret-of-a")
		stamp := func(id string) world.TokenMut {
			return func(ar fosite.AccessRequester) {
				if m := k.extra(ar.GetSession()); m != nil {
					m["handled_by"] = id
				}
			}
		}
		first := w.Token(url.Values{"grant_type": {"password"}, "username": {world.UserName}, "password": {world.UserPass}, "scope": {"offline fosite"}}, a, stamp("request-1"))
		if first.Err != nil || first.S("refresh_token") == "" {
			c.Inconcl("abandoned-request probe: no grant for " + k.name + ": " + world.ErrDetail(first.Err))
			continue
		}
		handledBy := func(tok string, use fosite.TokenUse) string {
			in := w.IntrospectAPI(tok, use)
			if !in.Active || in.AR == nil {
				return "<inactive>"
			}
			v, _ := k.extra(in.AR.GetSession())["handled_by"].(string)
			return v
		}
		before := [2]string{handledBy(first.S("access_token"), fosite.AccessToken), handledBy(first.S("refresh_token"), fosite.RefreshToken)}
		// a refresh that is given up after the integrator stamped its session
		w.Abandon = func(fosite.AccessRequester) bool { return true }
		ab := w.Token(url.Values{"grant_type": {"refresh_token"}, "refresh_token": {first.S("refresh_token")}}, a, stamp("request-2-abandoned"))
		w.Abandon = nil
		after := [2]string{handledBy(first.S("access_token"), fosite.AccessToken), handledBy(first.S("refresh_token"), fosite.RefreshToken)}
		c.Case(fmt.Sprintf("abandoned-refresh session=%s before=%v after=%v", k.name, before, after))
		c.Count("c19_abandoned_request_probes", 1)
		hist := []string{"password grant stamped handled_by=request-1", "refresh presented, session stamped handled_by=request-2-abandoned, request given up before NewAccessResponse: " + fmt.Sprint(ab.Err),
			fmt.Sprintf("stored access/refresh token report handled_by %v before, %v after", before, after)}
		if before != after {
			c.Violate(run.Violation{Kind: "abandoned-request-changed-state", Key: "abandoned-request-changed-state session=" + k.name,
				Detail: "a refresh request that never reached NewAccessResponse changed what the stored tokens of the grant carry", History: hist})
		}
		// the retry mints from the stored state: its tokens carry its own stamp only
		second := w.Token(url.Values{"grant_type": {"refresh_token"}, "refresh_token": {first.S("refresh_token")}}, a, func(ar fosite.AccessRequester) {
			if v, _ := k.extra(ar.GetSession())["handled_by"].(string); v == "request-2-abandoned" {
				c.Violate(run.Violation{Kind: "abandoned-request-changed-state", Key: "abandoned-request-leaked-into-next-request session=" + k.name,
					Detail: "the session handed to the next refresh already carries the claim of the abandoned request", History: hist})
			}
		})
		if second.Err != nil {
			c.Count("c19_abandoned_retry_refused", 1)
		}
	}
}

func c19stress(c *run.Ctx) {
	c.Need("c19_stress_ops", 1)
	if c.Shard == 0 {
		c19Abandoned(c)
	}
	rounds := 2
	opsPer := 150
	if !c.Quick() {
		rounds, opsPer = 8, 500
	}
	keys := world.GetKeys()
	for round := 0; round < rounds; round++ {
		lazy := (round+c.Shard)%2 == 0
		jwtAT := (round+c.Shard/2)%3 == 2
		w := world.New(world.Opts{LazyConfig: lazy, JWTAccess: jwtAT, Cfg: func(cfg *fosite.Config) {
			if !lazy {
				// a fully populated configuration, the way a config loader fills it: slices with spare capacity
				cfg.SanitationWhiteList = append(make([]string, 0, 16), "code", "redirect_uri")
				cfg.RefreshTokenScopes = append(make([]string, 0, 8), "offline", "offline_access")
				cfg.TokenEntropy = 32
			}
		}})
		w.AddClient(world.ClientSpec{ID: "pkj", Kind: "oidc", AuthMethod: "private_key_jwt", AuthSigAlg: "RS256", JWKS: world.PublicJWKS(nil, &keys.ClientRSA[0].PublicKey), RedirectURIs: []string{"https://pkj.example/cb"},
			GrantTypes: world.AllGrants, ResponseTypes: world.AllResponseTypes, Scopes: scopePool})
		p := &pool{}
		a := world.Basic("conf-a", "secret-of-a")
		// approved device codes are prepared before the goroutines start (the consent step edits the stored request)
		// with a default-constructed Config nothing runs before the goroutines start, so that the very first uses of the
		// lazily-defaulting getters happen concurrently
		for i := 0; i < 12 && !lazy; i++ {
			dv := w.Device(url.Values{"client_id": {"conf-a"}, "scope": {"offline fosite"}}, a)
			if dv.Err == nil && w.DeviceDecide(dv.S("user_code"), true, "user-dev", nil, false) == nil {
				p.devs = append(p.devs, dv.S("device_code"))
			}
		}
		sharedAssertion := clientAssertionFor("pkj", keys.ClientRSA[0], "k0")
		var wg sync.WaitGroup
		var ops, panics int64
		start := make(chan struct{})
		nG := 16
		for g := 0; g < nG; g++ {
			wg.Add(1)
			go func(g int) {
				defer wg.Done()
				r := rand.New(rand.NewSource(c.Seed*977 + int64(c.Shard)*131 + int64(round)*17 + int64(g)))
				<-start
				for i := 0; i < opsPer; i++ {
					func() {
						defer func() {
							if rec := recover(); rec != nil {
								atomic.AddInt64(&panics, 1)
								c.Violate(run.Violation{Kind: "panic", Key: "panic under concurrent use", Detail: fmt.Sprintf("%v\n%s", rec, debug.Stack())})
							}
						}()
						atomic.AddInt64(&ops, 1)
						c19op(w, p, r, a, keys, sharedAssertion)
					}()
				}
			}(g)
		}
		close(start)
		done := make(chan struct{})
		go func() { wg.Wait(); close(done) }()
		select {
		case <-done:
		case <-time.After(5 * time.Minute):
			c.Violate(run.Violation{Kind: "deadlock", Key: "deadlock: stress round did not finish", Detail: "16 goroutines did not finish within 5 minutes"})
			return
		}
		c.Count("c19_stress_ops", ops)
		c.Count("c19_stress_values_issued", p.issued)
		if len(p.dups) > 0 {
			v := p.dups[0]
			if len(v) > 60 {
				v = v[:30] + "..." + v[len(v)-20:]
			}
			c.Violate(run.Violation{Kind: "token-generated-twice", Key: fmt.Sprintf("token-generated-twice under load jwt-access-tokens=%v", jwtAT),
				Detail: fmt.Sprintf("%d of %d values handed out in this round had been handed out before, e.g. %s", len(p.dups), p.issued, v)})
		}
		c.Eval(ops)
		c.Distinct[fmt.Sprintf("stress-round lazy-config=%v jwt=%v", lazy, jwtAT)]++
		if round == 0 {
			c.Sample(map[string]interface{}{"stress_round": map[string]interface{}{"goroutines": nG, "ops": ops, "lazy_config": lazy, "shared_codes": len(p.codes), "shared_refresh_tokens": len(p.rts)}})
		}
	}
}

// c19op performs one randomly chosen API operation of the stress mix on the shared pool.
func c19op(w *world.World, p *pool, r *rand.Rand, a world.Auth, keys *world.Keys, sharedAssertion string) {
	switch r.Intn(14) {
	case 0, 1:
		az := w.Authorize(url.Values{"client_id": {"conf-a"}, "response_type": {pick(r, []string{"code", "code id_token", "code token"})}, "scope": {"openid offline fosite"}, "state": {"state-0123456789"},
			"nonce": {"nonce-0123456789"}, "redirect_uri": {"https://app-a.example/cb"}, "code_challenge": {s256(goodVerifier)}, "code_challenge_method": {"S256"}}, world.Consent{})
		p.add(&p.codes, az.Params.Get("code"))
		p.add(&p.ats, az.Params.Get("access_token"))
	case 2, 3:
		if code := p.take(r, &p.codes); code != "" {
			out := w.Token(url.Values{"grant_type": {"authorization_code"}, "code": {code}, "redirect_uri": {"https://app-a.example/cb"}, "code_verifier": {goodVerifier}}, a)
			p.add(&p.ats, out.S("access_token"))
			p.add(&p.rts, out.S("refresh_token"))
		}
	case 4, 5, 6:
		if rt := p.pick(r, &p.rts); rt != "" {
			out := w.Token(url.Values{"grant_type": {"refresh_token"}, "refresh_token": {rt}}, a)
			p.add(&p.ats, out.S("access_token"))
			p.add(&p.rts, out.S("refresh_token"))
		}
	case 7:
		l := &p.ats
		if r.Intn(2) == 0 {
			l = &p.rts
		}
		if t := p.pick(r, l); t != "" {
			w.Revoke(url.Values{"token": {t}}, a)
		}
	case 8, 9:
		l := &p.ats
		if r.Intn(2) == 0 {
			l = &p.rts
		}
		if t := p.pick(r, l); t != "" {
			w.IntrospectAPI(t, "")
			if r.Intn(4) == 0 {
				w.IntrospectHTTP(url.Values{"token": {t}}, a, "")
			}
		}
	case 10:
		if r.Intn(2) == 0 {
			// a new device authorization: device and user code are minted, signed and stored (left undecided: the harness's
			// consent step reads the store's table directly and is not meant for concurrent use)
			w.Device(url.Values{"client_id": {"conf-a"}, "scope": {"offline fosite"}}, a)
		} else if d := p.take(r, &p.devs); d != "" {
			out := w.Token(url.Values{"grant_type": {"urn:ietf:params:oauth:grant-type:device_code"}, "device_code": {d}}, a)
			p.add(&p.rts, out.S("refresh_token"))
		}
	case 11:
		if r.Intn(2) == 0 {
			out := w.PAR(url.Values{"client_id": {"conf-a"}, "response_type": {"code"}, "scope": {"fosite"}, "state": {"state-0123456789"}, "redirect_uri": {"https://app-a.example/cb"}, "code_challenge": {s256(goodVerifier)}, "code_challenge_method": {"S256"}}, a)
			p.add(&p.pars, out.S("request_uri"))
		} else if u := p.take(r, &p.pars); u != "" {
			az := w.Authorize(url.Values{"client_id": {"conf-a"}, "request_uri": {u}}, world.Consent{})
			p.add(&p.codes, az.Params.Get("code"))
		}
	case 12:
		out := w.Token(url.Values{"grant_type": {pick(r, []string{"client_credentials", "password"})}, "username": {world.UserName}, "password": {world.UserPass}, "scope": {"offline fosite"}}, a)
		p.add(&p.ats, out.S("access_token"))
		p.add(&p.rts, out.S("refresh_token"))
	case 13:
		as := sharedAssertion
		if r.Intn(2) == 0 {
			as = clientAssertionFor("pkj", keys.ClientRSA[0], "k0")
		}
		w.Token(url.Values{"grant_type": {"client_credentials"}, "scope": {"fosite"}}, world.Auth{Mode: "none", Assertion: as})
	}
}

// ---------------------------------------------------------------------------
// 2. linearizability of the reference store's operations (porcupine)

type sop struct {
	Op       string // at-create, at-get, at-del, at-revoke, rt-create, rt-get, rt-del, rt-revoke, rt-rotate, code-create, code-get, code-inval, kv-create/get/del (pkce|oidc|par), jti-set, jti-valid
	Key, Req string
	Tab      string
}

func errStr(err error) string {
	switch {
	case err == nil:
		return "ok"
	case err == fosite.ErrInactiveToken:
		return "inactive"
	case err == fosite.ErrInvalidatedAuthorizeCode:
		return "invalidated_code"
	case err == fosite.ErrJTIKnown:
		return "jti_known"
	case err == fosite.ErrNotFound:
		return "not_found"
	}
	return "error:" + err.Error()
}

func tabGroup(op string) string {
	switch {
	case strings.HasPrefix(op, "at-"):
		return "access"
	case strings.HasPrefix(op, "rt-"):
		return "refresh"
	case strings.HasPrefix(op, "code-"):
		return "code"
	case strings.HasPrefix(op, "jti-"):
		return "jti"
	}
	return "kv"
}

// c19Model: the sequential specification of the reference store is the store itself, replayed (see replicaStep).
func c19Model() porcupine.Model {
	return porcupine.Model{
		Init:  func() interface{} { return linState{digest: world.StructuralDigest(storage.NewMemoryStore())} },
		Step:  replicaStep,
		Equal: func(a, b interface{}) bool { return a.(linState).digest == b.(linState).digest },
		Partition: func(h []porcupine.Operation) [][]porcupine.Operation {
			g := map[string][]porcupine.Operation{}
			for _, o := range h {
				in := o.Input.(sop)
				k := tabGroup(in.Op)
				if k == "kv" {
					k = in.Tab + ":" + in.Key
				}
				if k == "jti" || k == "code" {
					k += ":" + in.Key
				}
				g[k] = append(g[k], o)
			}
			var out [][]porcupine.Operation
			for _, v := range g {
				out = append(out, v)
			}
			return out
		},
		DescribeOperation: func(in, out interface{}) string { return fmt.Sprintf("%+v -> %v", in, out) },
	}
}

func c19lin(c *run.Ctx) {
	c.Need("c19_histories_checked", 1)
	n := c.N(160, 6000)
	model := c19Model()
	c19hot(c, model, map[bool]int{true: 4000, false: 60000}[c.Quick()], 0)
	for i := 0; i < n; i++ {
		r := caseRng(c, i)
		mem := storage.NewMemoryStore()
		nClients := 4 + r.Intn(5)
		per := 5 + r.Intn(4)
		var mu sync.Mutex
		var hist []porcupine.Operation
		var clock int64
		var wg sync.WaitGroup
		start := make(chan struct{})
		keys := []string{"k1", "k2", "k3"}
		reqs := []string{"r1", "r2"}
		for cl := 0; cl < nClients; cl++ {
			wg.Add(1)
			seed := r.Int63() + int64(cl)
			go func(cl int) {
				defer wg.Done()
				rr := rand.New(rand.NewSource(seed))
				<-start
				for j := 0; j < per; j++ {
					in := sop{Key: pick(rr, keys), Req: pick(rr, reqs)}
					in.Op = pick(rr, []string{"at-create", "at-get", "at-del", "at-revoke", "rt-create", "rt-get", "rt-del", "rt-revoke", "code-create", "code-get", "code-inval", "kv-create", "kv-get", "kv-del", "jti-set", "jti-valid"})
					if in.Op == "at-create" || in.Op == "rt-create" {
						// a signature belongs to one request for ever (signatures are unique): k1, k2 -> r1, k3 -> r2
						in.Req = map[string]string{"k1": "r1", "k2": "r1", "k3": "r2"}[in.Key]
					}
					if strings.HasPrefix(in.Op, "kv-") {
						in.Tab = pick(rr, []string{"pkce", "oidc", "par"})
					}
					t0 := atomic.AddInt64(&clock, 1)
					out := applySop(mem, in)
					t1 := atomic.AddInt64(&clock, 1)
					mu.Lock()
					hist = append(hist, porcupine.Operation{ClientId: cl, Input: in, Call: t0, Output: out, Return: t1})
					mu.Unlock()
				}
			}(cl)
		}
		close(start)
		wg.Wait()
		res, info := porcupine.CheckOperationsVerbose(model, hist, 20*time.Second)
		c.Eval(int64(len(hist)))
		c.Count("c19_histories_checked", 1)
		c.Count("c19_store_operations", int64(len(hist)))
		c.Distinct[fmt.Sprintf("history clients=%d ops=%d result=%v", nClients, len(hist), res)]++
		switch res {
		case porcupine.Illegal:
			_ = info
			// the witness is the partition(s) without a linearization, not the whole history
			var lines []string
			for _, part := range model.Partition(hist) {
				if r, _ := porcupine.CheckOperationsVerbose(model, part, 20*time.Second); r != porcupine.Illegal {
					continue
				}
				sort.Slice(part, func(a, b int) bool { return part[a].Call < part[b].Call })
				lines = append(lines, "partition without a linearization:")
				for _, o := range part {
					lines = append(lines, fmt.Sprintf("  client %d [%d,%d] %+v -> %v", o.ClientId, o.Call, o.Return, o.Input, o.Output))
				}
			}
			c.Violate(run.Violation{Kind: "not-linearizable", Key: "not-linearizable store history", Detail: "no sequential order of the store operations explains the recorded results", History: lines})
		case porcupine.Unknown:
			c.Count("c19_porcupine_timeouts", 1)
		}
		if i == 0 {
			var lines []string
			for _, o := range hist[:min(10, len(hist))] {
				lines = append(lines, fmt.Sprintf("client %d [%d,%d] %+v -> %v", o.ClientId, o.Call, o.Return, o.Input, o.Output))
			}
			c.Sample(map[string]interface{}{"store_history_prefix": lines, "verdict": fmt.Sprint(res)})
		}
	}
}

// applySop performs one store operation of the linearizability workload and renders its result. The same function drives the
// concurrent history and the sequential replica the history is judged against.
func applySop(mem *storage.MemoryStore, in sop) string {
	ctx := context.Background()
	mkReq := func(id string) *fosite.Request {
		q := fosite.NewRequest()
		q.ID = id
		q.Session = world.NewSess("u")
		return q
	}
	var out string
	switch in.Op {
	case "at-create":
		out = errStr(mem.CreateAccessTokenSession(ctx, in.Key, mkReq(in.Req)))
	case "at-get":
		_, err := mem.GetAccessTokenSession(ctx, in.Key, nil)
		out = errStr(err)
	case "at-del":
		out = errStr(mem.DeleteAccessTokenSession(ctx, in.Key))
	case "at-revoke":
		out = errStr(mem.RevokeAccessToken(ctx, in.Req))
	case "rt-create":
		out = errStr(mem.CreateRefreshTokenSession(ctx, in.Key, "", mkReq(in.Req)))
	case "rt-get":
		_, err := mem.GetRefreshTokenSession(ctx, in.Key, nil)
		out = errStr(err)
	case "rt-del":
		out = errStr(mem.DeleteRefreshTokenSession(ctx, in.Key))
	case "rt-revoke":
		out = errStr(mem.RevokeRefreshToken(ctx, in.Req))
	case "code-create":
		out = errStr(mem.CreateAuthorizeCodeSession(ctx, in.Key, mkReq(in.Req)))
	case "code-get":
		_, err := mem.GetAuthorizeCodeSession(ctx, in.Key, nil)
		out = errStr(err)
	case "code-inval":
		out = errStr(mem.InvalidateAuthorizeCodeSession(ctx, in.Key))
	case "kv-create":
		switch in.Tab {
		case "pkce":
			out = errStr(mem.CreatePKCERequestSession(ctx, in.Key, mkReq(in.Req)))
		case "oidc":
			out = errStr(mem.CreateOpenIDConnectSession(ctx, in.Key, mkReq(in.Req)))
		case "par":
			ar := fosite.NewAuthorizeRequest()
			ar.ID = in.Req
			out = errStr(mem.CreatePARSession(ctx, in.Key, ar))
		}
	case "kv-get":
		var q fosite.Requester
		var err error
		switch in.Tab {
		case "pkce":
			q, err = mem.GetPKCERequestSession(ctx, in.Key, nil)
		case "oidc":
			q, err = mem.GetOpenIDConnectSession(ctx, in.Key, nil)
		case "par":
			q, err = mem.GetPARSession(ctx, in.Key)
		}
		out = errStr(err)
		if err == nil {
			out = "ok:" + q.GetID()
		}
	case "kv-del":
		switch in.Tab {
		case "pkce":
			out = errStr(mem.DeletePKCERequestSession(ctx, in.Key))
		case "oidc":
			out = errStr(mem.DeleteOpenIDConnectSession(ctx, in.Key))
		case "par":
			out = errStr(mem.DeletePARSession(ctx, in.Key))
		}
	case "jti-set":
		out = errStr(mem.SetClientAssertionJWT(ctx, in.Key, time.Now().Add(time.Hour)))
	case "jti-valid":
		out = errStr(mem.ClientAssertionJWTValid(ctx, in.Key))
	}
	return out
}

// linState is the state of the sequential specification: the operations applied so far (replayed on a fresh reference store
// for every step) and the structural digest of the store they produce (equal digests = equal states).
type linState struct {
	ops    []sop
	digest string
}

// replicaStep: the specification of a store operation is the store itself, run sequentially. An operation is explained by a
// linearization iff, applied after the operations ordered before it on a fresh store, it returns what was observed.
func replicaStep(state, input, output interface{}) (bool, interface{}) {
	st := state.(linState)
	in := input.(sop)
	mem := storage.NewMemoryStore()
	for _, o := range st.ops {
		applySop(mem, o)
	}
	if applySop(mem, in) != output.(string) {
		return false, state
	}
	return true, linState{ops: append(append([]sop(nil), st.ops...), in), digest: world.StructuralDigest(mem)}
}

// c19hot: bursts of identical operations on ONE key released from a barrier, the widest window for a
// check-then-act split inside a single store operation. Each burst is a tiny history checked with porcupine.
// delay > 0 (builds with the lock observer only): every goroutine pauses that long before it waits for a table lock while the
// burst runs; the checker's sequential replays run without the pause.
func c19hot(c *run.Ctx, model porcupine.Model, bursts int, delay time.Duration) {
	ctx := context.Background()
	mkReq := func(id string) *fosite.Request {
		q := fosite.NewRequest()
		q.ID = id
		q.Session = world.NewSess("u")
		return q
	}
	kinds := []string{"jti-set", "jti-mixed", "code-inval", "rt-revoke", "at-revoke", "at-revoke-two"}
	for b := 0; b < bursts; b++ {
		mem := storage.NewMemoryStore()
		kind := kinds[b%len(kinds)]
		key := fmt.Sprintf("hot-%d", b)
		var pre []porcupine.Operation
		var clock int64
		seq := func(in sop, out string) {
			t0 := atomic.AddInt64(&clock, 1)
			t1 := atomic.AddInt64(&clock, 1)
			pre = append(pre, porcupine.Operation{ClientId: 0, Input: in, Call: t0, Output: out, Return: t1})
		}
		switch kind {
		case "code-inval":
			seq(sop{Op: "code-create", Key: key, Req: "r1"}, errStr(mem.CreateAuthorizeCodeSession(ctx, key, mkReq("r1"))))
		case "rt-revoke":
			seq(sop{Op: "rt-create", Key: key, Req: "r1"}, errStr(mem.CreateRefreshTokenSession(ctx, key, "", mkReq("r1"))))
		case "at-revoke":
			seq(sop{Op: "at-create", Key: key, Req: "r1"}, errStr(mem.CreateAccessTokenSession(ctx, key, mkReq("r1"))))
		case "at-revoke-two":
			// one request owns two access tokens (the hybrid flow): revoking by request id removes both AT ONCE - a reader that
			// finds the newer one gone and then the older one still there has seen half of the operation
			seq(sop{Op: "at-create", Key: key + "-old", Req: "r1"}, errStr(mem.CreateAccessTokenSession(ctx, key+"-old", mkReq("r1"))))
			seq(sop{Op: "at-create", Key: key + "-new", Req: "r1"}, errStr(mem.CreateAccessTokenSession(ctx, key+"-new", mkReq("r1"))))
		}
		const G = 8
		var extraMu sync.Mutex
		var extra []porcupine.Operation
		outs := make([]porcupine.Operation, G)
		var wg sync.WaitGroup
		start := make(chan struct{})
		for g := 0; g < G; g++ {
			wg.Add(1)
			go func(g int) {
				defer wg.Done()
				<-start
				in := sop{Key: key, Req: "r1"}
				t0 := atomic.AddInt64(&clock, 1)
				var out string
				switch kind {
				case "jti-set":
					in.Op = "jti-set"
					out = errStr(mem.SetClientAssertionJWT(ctx, key, time.Now().Add(time.Hour)))
				case "jti-mixed":
					if g%2 == 0 {
						in.Op = "jti-set"
						out = errStr(mem.MarkJWTUsedForTime(ctx, key, time.Now().Add(time.Hour)))
					} else {
						in.Op = "jti-valid"
						out = errStr(mem.ClientAssertionJWTValid(ctx, key))
					}
				case "code-inval":
					if g%2 == 0 {
						in.Op = "code-inval"
						out = errStr(mem.InvalidateAuthorizeCodeSession(ctx, key))
					} else {
						in.Op = "code-get"
						_, err := mem.GetAuthorizeCodeSession(ctx, key, nil)
						out = errStr(err)
					}
				case "rt-revoke":
					switch g % 3 {
					case 0:
						in.Op = "rt-revoke"
						out = errStr(mem.RevokeRefreshToken(ctx, "r1"))
					case 1:
						in.Op = "rt-get"
						_, err := mem.GetRefreshTokenSession(ctx, key, nil)
						out = errStr(err)
					case 2:
						in.Op = "rt-del"
						out = errStr(mem.DeleteRefreshTokenSession(ctx, key))
					}
				case "at-revoke-two":
					if g == 0 {
						in.Op = "at-revoke"
						out = errStr(mem.RevokeAccessToken(ctx, "r1"))
					} else {
						// ordered pairs of reads: the newer token first, then the older one
						var mine []porcupine.Operation
						for k := 0; k < 6; k++ {
							for _, suffix := range []string{"-new", "-old"} {
								a := atomic.AddInt64(&clock, 1)
								_, err := mem.GetAccessTokenSession(ctx, key+suffix, nil)
								b := atomic.AddInt64(&clock, 1)
								mine = append(mine, porcupine.Operation{ClientId: g + 1, Input: sop{Op: "at-get", Key: key + suffix, Req: "r1"}, Call: a, Output: errStr(err), Return: b})
							}
						}
						extraMu.Lock()
						extra = append(extra, mine[1:]...)
						extraMu.Unlock()
						in, t0, out = mine[0].Input.(sop), mine[0].Call, mine[0].Output.(string)
						outs[g] = mine[0]
						return
					}
				case "at-revoke":
					switch g % 3 {
					case 0:
						in.Op = "at-revoke"
						out = errStr(mem.RevokeAccessToken(ctx, "r1"))
					case 1:
						in.Op = "at-get"
						_, err := mem.GetAccessTokenSession(ctx, key, nil)
						out = errStr(err)
					case 2:
						in.Op = "at-create"
						out = errStr(mem.CreateAccessTokenSession(ctx, key, mkReq("r1")))
					}
				}
				t1 := atomic.AddInt64(&clock, 1)
				outs[g] = porcupine.Operation{ClientId: g + 1, Input: in, Call: t0, Output: out, Return: t1}
			}(g)
		}
		world.LockDelay(delay)
		close(start)
		finished := make(chan struct{})
		go func() { wg.Wait(); close(finished) }()
		select {
		case <-finished:
		case <-time.After(60 * time.Second):
			// a handful of store calls do not take a minute: somebody waits for a lock that is never given back
			world.LockDelay(0)
			buf := make([]byte, 1<<16)
			buf = buf[:runtime.Stack(buf, true)]
			c.Violate(run.Violation{Kind: "deadlock", Key: "deadlock: burst " + kind + " did not finish", Detail: "the goroutines of one burst of store operations did not return within a minute\n" + string(buf)})
			return
		}
		world.LockDelay(0)
		hist := append(append(pre, outs...), extra...)
		res, _ := porcupine.CheckOperationsVerbose(model, hist, 10*time.Second)
		c.Eval(int64(len(hist)))
		c.Count("c19_hot_bursts", 1)
		if res == porcupine.Illegal {
			var lines []string
			for _, o := range hist {
				lines = append(lines, fmt.Sprintf("client %d [%d,%d] %+v -> %v", o.ClientId, o.Call, o.Return, o.Input, o.Output))
			}
			c.Violate(run.Violation{Kind: "not-linearizable", Key: "not-linearizable burst " + kind, Detail: "simultaneous operations on one key / one request returned results no sequential order explains", History: lines})
		}
	}
	c.Distinct[fmt.Sprintf("hot-key bursts kinds=%v", kinds)]++
}

// ---------------------------------------------------------------------------
// 3. controlled schedules of two / three API operations at storage-call granularity

type schedOp struct {
	name       string
	grant      int                                          // which grant it touches (0 / 1)
	invalidate bool                                         // may invalidate tokens of that grant (revoke, rotate, replay, reuse)
	run        func(w *world.World, env *schedEnv) []string // returns tokens handed to the caller
}

type schedEnv struct {
	code [2]string
	rt   [2]string
	at   [2]string
	dev  string
	par  string
	auth world.Auth
}

func schedOps() []schedOp {
	tok := func(o *world.Out) []string {
		var t []string
		for _, k := range []string{"access_token", "refresh_token"} {
			if v := o.S(k); v != "" {
				t = append(t, v)
			}
		}
		return t
	}
	mk := func(g int) []schedOp {
		return []schedOp{
			{fmt.Sprintf("redeem-g%d", g), g, true, func(w *world.World, e *schedEnv) []string {
				return tok(w.Token(url.Values{"grant_type": {"authorization_code"}, "code": {e.code[g]}, "redirect_uri": {"https://app-c.example/cb"}}, e.auth))
			}},
			{fmt.Sprintf("refresh-g%d", g), g, true, func(w *world.World, e *schedEnv) []string {
				return tok(w.Token(url.Values{"grant_type": {"refresh_token"}, "refresh_token": {e.rt[g]}}, e.auth))
			}},
			{fmt.Sprintf("revoke-at-g%d", g), g, true, func(w *world.World, e *schedEnv) []string {
				w.Revoke(url.Values{"token": {e.at[g]}}, e.auth)
				return nil
			}},
			{fmt.Sprintf("revoke-rt-g%d", g), g, true, func(w *world.World, e *schedEnv) []string {
				w.Revoke(url.Values{"token": {e.rt[g]}}, e.auth)
				return nil
			}},
			{fmt.Sprintf("introspect-g%d", g), g, false, func(w *world.World, e *schedEnv) []string {
				w.IntrospectAPI(e.at[g], fosite.AccessToken)
				w.IntrospectAPI(e.rt[g], fosite.RefreshToken)
				return nil
			}},
		}
	}
	ops := append(mk(0), mk(1)...)
	ops = append(ops,
		schedOp{"authorize", 2, false, func(w *world.World, e *schedEnv) []string {
			az := w.Authorize(url.Values{"client_id": {"pub-c"}, "response_type": {"code token"}, "scope": {"offline fosite"}, "state": {"state-0123456789"}, "redirect_uri": {"https://app-c.example/cb"}}, world.Consent{})
			if t := az.Params.Get("access_token"); t != "" {
				return []string{t}
			}
			return nil
		}},
		schedOp{"device-poll", 3, true, func(w *world.World, e *schedEnv) []string {
			return tok(w.Token(url.Values{"grant_type": {"urn:ietf:params:oauth:grant-type:device_code"}, "device_code": {e.dev}}, e.auth))
		}},
		schedOp{"par-use", 4, false, func(w *world.World, e *schedEnv) []string {
			w.Authorize(url.Values{"client_id": {"pub-c"}, "request_uri": {e.par}}, world.Consent{})
			return nil
		}},
		schedOp{"client-credentials", 5, false, func(w *world.World, e *schedEnv) []string {
			return tok(w.Token(url.Values{"grant_type": {"client_credentials"}, "scope": {"fosite"}}, world.Basic("conf-a", "secret-of-a")))
		}},
	)
	return ops
}

func schedSetup(jwt bool, need map[int]bool) (*world.World, *schedEnv) {
	w := world.New(world.Opts{JWTAccess: jwt})
	// a public client keeps bcrypt out of the (race-instrumented) set-up
	e := &schedEnv{auth: world.Public("pub-c")}
	red := "https://app-c.example/cb"
	for g := 0; g < 2; g++ {
		if !need[g] {
			continue
		}
		// one grant with live tokens and a second, still unredeemed code of the same kind
		az := w.Authorize(url.Values{"client_id": {"pub-c"}, "response_type": {"code"}, "scope": {"offline fosite"}, "state": {"state-0123456789"}, "redirect_uri": {red}}, world.Consent{})
		out := w.Token(url.Values{"grant_type": {"authorization_code"}, "code": {az.Params.Get("code")}, "redirect_uri": {red}}, e.auth)
		e.at[g], e.rt[g] = out.S("access_token"), out.S("refresh_token")
		az2 := w.Authorize(url.Values{"client_id": {"pub-c"}, "response_type": {"code"}, "scope": {"offline fosite"}, "state": {"state-0123456789"}, "redirect_uri": {red}}, world.Consent{})
		e.code[g] = az2.Params.Get("code")
	}
	if need[3] {
		dv := w.Device(url.Values{"client_id": {"pub-c"}, "scope": {"offline"}}, e.auth)
		_ = w.DeviceDecide(dv.S("user_code"), true, "user-dev", nil, false)
		e.dev = dv.S("device_code")
	}
	if need[4] {
		p := w.PAR(url.Values{"client_id": {"pub-c"}, "response_type": {"code"}, "scope": {"fosite"}, "state": {"state-0123456789"}, "redirect_uri": {red}}, e.auth)
		e.par = p.S("request_uri")
	}
	return w, e
}

func c19sched(c *run.Ctx) {
	c.Need("c19_schedules", 1)
	ops := schedOps()
	limit := 40
	if !c.Quick() {
		limit = 1200
	}
	type combo struct{ idx []int }
	var combos []combo
	for i := range ops {
		for j := i; j < len(ops); j++ {
			combos = append(combos, combo{[]int{i, j}})
		}
	}
	// a seeded sample of triples
	r := caseRng(c, 1)
	nTriples := 12
	if !c.Quick() {
		nTriples = 60
	}
	for k := 0; k < nTriples; k++ {
		combos = append(combos, combo{[]int{r.Intn(len(ops)), r.Intn(len(ops)), r.Intn(len(ops))}})
	}
	for ci, cb := range combos {
		if !c.Mine(ci) {
			continue
		}
		var names []string
		for _, i := range cb.idx {
			names = append(names, ops[i].name)
		}
		var prefix []int
		schedules := 0
		exhaustive := true
		for {
			need := map[int]bool{0: true, 1: true} // both grants always exist: the untouched one is the bystander
			touched := map[int]bool{}
			for _, i := range cb.idx {
				need[ops[i].grant] = true
				touched[ops[i].grant] = true
			}
			w, env := schedSetup(ci%2 == 1, need)
			handed := make([][]string, len(cb.idx))
			var fns []func()
			var panicked atomic.Value
			for k, i := range cb.idx {
				k, i := k, i
				fns = append(fns, func() {
					defer func() {
						if rec := recover(); rec != nil {
							panicked.Store(fmt.Sprintf("%v\n%s", rec, debug.Stack()))
						}
					}()
					handed[k] = ops[i].run(w, env)
				})
			}
			s := &world.Sched{W: w, Skip: map[string]bool{"GetClient": true}}
			s.Run(fns, prefix)
			schedules++
			c.Eval(1)
			c.Count("c19_schedules", 1)
			if s.Hung {
				c.Violate(run.Violation{Kind: "deadlock", Key: "deadlock under controlled schedule " + strings.Join(names, " || "), Detail: "an operation did not reach its next storage call or finish within 20s", History: s.Trace})
				break
			}
			if p := panicked.Load(); p != nil {
				c.Violate(run.Violation{Kind: "panic", Key: "panic under controlled schedule " + strings.Join(names, " || "), Detail: p.(string), History: s.Trace})
			}
			tr := strings.Join(s.Trace, " ")
			c.Distinct["schedule "+strings.Join(names, "||")+": "+tr]++
			// every token handed to a caller is active afterwards, or one of the concurrent operations invalidates its grant
			for k, i := range cb.idx {
				invalidated := false
				for k2, i2 := range cb.idx {
					if k2 != k && ops[i2].invalidate && ops[i2].grant == ops[i].grant {
						invalidated = true
					}
				}
				for _, t := range handed[k] {
					use := fosite.AccessToken
					if strings.HasPrefix(t, "ory_rt_") {
						use = fosite.RefreshToken
					}
					active := w.IntrospectAPI(t, use).Active
					c.Count(fmt.Sprintf("c19_handed_token_active=%v_concurrent_invalidator=%v", active, invalidated), 1)
					if !active && !invalidated {
						c.Violate(run.Violation{Kind: "handed-token-inactive", Key: "handed-token-inactive " + strings.Join(names, " || "), Detail: fmt.Sprintf("a token handed to the caller of %s is inactive although no concurrent operation invalidates its grant", ops[i].name), History: s.Trace})
					}
				}
			}
			// isolation under every interleaving: the tokens of a grant no operation touches stay active
			for g := 0; g < 2; g++ {
				if touched[g] {
					continue
				}
				if !w.IntrospectAPI(env.at[g], fosite.AccessToken).Active || !w.IntrospectAPI(env.rt[g], fosite.RefreshToken).Active {
					c.Violate(run.Violation{Kind: "bystander-token-inactive", Key: "bystander-token-inactive " + strings.Join(names, " || "), Detail: fmt.Sprintf("tokens of grant %d, which none of the concurrent operations touches, are no longer active", g), History: s.Trace})
				}
				c.Count("c19_bystander_checks", 1)
			}
			if schedules == 1 && ci < 3*c.NShards {
				c.Sample(map[string]interface{}{"operations": names, "first_schedule": s.Trace})
			}
			prefix = world.NextPrefix(s.Choices, s.Taken)
			if prefix == nil {
				break
			}
			if schedules >= limit {
				exhaustive = false
				// beyond the limit: jump to a seeded random schedule prefix
				break
			}
		}
		c.Count(fmt.Sprintf("c19_combos_exhaustive=%v", exhaustive), 1)
	}
}

// ---------------------------------------------------------------------------
// 4. token generation never repeats across goroutines

func c19gen(c *run.Ctx) {
	n := 10000
	if !c.Quick() {
		n = 250000
	}
	st := &thmac.HMACStrategy{Config: &fosite.Config{GlobalSecret: world.GlobalSecret}}
	const G = 16
	sets := make([]map[string]struct{}, G)
	var wg sync.WaitGroup
	for g := 0; g < G; g++ {
		wg.Add(1)
		go func(g int) {
			defer wg.Done()
			m := make(map[string]struct{}, n)
			for i := 0; i < n; i++ {
				tok, _, err := st.Generate(context.Background())
				if err != nil {
					c.Violate(run.Violation{Kind: "generate-failed", Key: "generate-failed concurrent", Detail: err.Error()})
					return
				}
				m[tok] = struct{}{}
			}
			sets[g] = m
		}(g)
	}
	wg.Wait()
	all := make(map[string]struct{}, n*G)
	for _, m := range sets {
		for k := range m {
			all[k] = struct{}{}
		}
	}
	c.Eval(int64(n * G))
	c.DisjointN += int64(len(all))
	c.Count("c19_generated", int64(n*G))
	c.Count("c19_generated_distinct", int64(len(all)))
	if len(all) != n*G {
		c.Violate(run.Violation{Kind: "duplicate-generated", Key: "duplicate-generated concurrent", Detail: fmt.Sprintf("%d values generated by %d goroutines, only %d distinct", n*G, G, len(all))})
	}
	var first []string
	for k := range sets[0] {
		first = append(first, k)
		if len(first) == 2 {
			break
		}
	}
	c.Sample(map[string]interface{}{"generated": n * G, "distinct": len(all), "examples": first})
}
