package mon

import (
	"encoding/base64"
	"fmt"
	"net/url"
	"strings"

	"github.com/ory/fosite"

	"fverif/run"
	"fverif/sim"
	"fverif/spec"
	"fverif/world"
)

func init() { Registry["C05"] = C05 }

type c05Case struct {
	Strategy string // wildcard | exact | hierarchic
	Refresh  string // default | none | custom
	Origin   string // code | hybrid | password | device
	Client   string
	Granted  []string
	Aud      []string
	Edit     string // none | unrelated-scope | drop-scope | drop-aud | drop-refresh-grant | drop-all-scopes
	Present  string // owner | foreign
	Params   string // none | scope-superset | scope-subset | scope-other | aud-other | both
	JWT      bool
}

func (k c05Case) String() string {
	return fmt.Sprintf("strategy=%s refresh-scopes=%s origin=%s client=%s granted=%v aud=%v edit=%s present=%s params=%s jwt=%v", k.Strategy, k.Refresh, k.Origin, k.Client, k.Granted, k.Aud, k.Edit, k.Present, k.Params, k.JWT)
}

// registered scope patterns per strategy and the concrete scopes a grant may contain under them
func c05Scopes(strategy string) (registered []string, grantable [][]string) {
	switch strategy {
	case "wildcard":
		return []string{"openid", "offline", "offline_access", "photos.*", "fosite", "docs.*.read"},
			[][]string{{"offline", "photos.read", "fosite"}, {"offline_access", "photos.read.own", "docs.a.read"}, {"photos.write"}, {"offline", "fosite"}, {"fosite", "docs.b.read"}}
	case "hierarchic":
		return []string{"openid", "offline", "offline_access", "photos", "fosite", "docs.a"},
			[][]string{{"offline", "photos.read", "fosite"}, {"offline_access", "photos", "docs.a.read"}, {"photos.write.own"}, {"offline", "fosite"}, {"fosite", "docs.a"}}
	}
	return []string{"openid", "offline", "offline_access", "photos", "fosite", "docs"},
		[][]string{{"offline", "photos", "fosite"}, {"offline_access", "photos", "docs"}, {"photos"}, {"offline", "fosite"}, {"fosite", "docs"}}
}

// c05StaleIssuance: a refresh token is issued only to a client that IS registered for the refresh_token grant. Between the
// authorization (or the device authorization) and the exchange the registration loses that grant, edited in place or - how an
// admin API does it - by replacing the client record, after which the request stored with the code still carries the old object.
func c05StaleIssuance(c *run.Ctx) {
	if !c.Mine(4) && c.NShards > 4 {
		return
	}
	grants := []string{"authorization_code", "implicit", "urn:ietf:params:oauth:grant-type:device_code", "refresh_token"}
	for _, origin := range []string{"code", "hybrid", "device"} {
		for _, replace := range []bool{false, true} {
			for _, db := range []bool{false, true} {
				w := world.New(world.Opts{Mode: world.Mode{DB: db}})
				sp := world.ClientSpec{ID: "c5-stale", Secret: "s5s", RedirectURIs: []string{"https://c5s.example/cb"}, GrantTypes: grants, ResponseTypes: world.AllResponseTypes, Scopes: []string{"openid", "offline", "fosite"}}
				w.AddClient(sp)
				a := world.Basic("c5-stale", "s5s")
				var form url.Values
				switch origin {
				case "code", "hybrid":
					rt, scope := "code", "offline fosite"
					if origin == "hybrid" {
						rt, scope = "code id_token", "openid offline fosite"
					}
					az := w.Authorize(url.Values{"client_id": {"c5-stale"}, "response_type": {rt}, "scope": {scope}, "state": {"state-0123456789"}, "nonce": {"nonce-0123456789"}, "redirect_uri": {"https://c5s.example/cb"}}, world.Consent{})
					if az.Err != nil || az.Params.Get("code") == "" {
						c.Inconcl("c05 stale issuance: authorize failed: " + world.ErrDetail(az.Err))
						continue
					}
					form = url.Values{"grant_type": {"authorization_code"}, "code": {az.Params.Get("code")}, "redirect_uri": {"https://c5s.example/cb"}}
				case "device":
					dv := w.Device(url.Values{"client_id": {"c5-stale"}, "scope": {"offline fosite"}}, a)
					if dv.Err != nil || w.DeviceDecide(dv.S("user_code"), true, "user-dev", nil, false) != nil {
						c.Inconcl("c05 stale issuance: device authorization failed: " + world.ErrDetail(dv.Err))
						continue
					}
					form = url.Values{"grant_type": {"urn:ietf:params:oauth:grant-type:device_code"}, "device_code": {dv.S("device_code")}}
				}
				// the registration loses the refresh_token grant
				if replace {
					sp2 := sp
					sp2.GrantTypes = removeStr(append([]string(nil), grants...), "refresh_token")
					w.Mem.Clients["c5-stale"] = sp2.Build()
				} else {
					dc := world.DC(w.Client("c5-stale"))
					dc.GrantTypes = removeStr(dc.GrantTypes, "refresh_token")
				}
				out := w.Token(form, a)
				got := out.S("refresh_token") != ""
				c.Case(fmt.Sprintf("stale-issuance origin=%s registration-replaced=%v db=%v exchanged=%v refresh_token=%v", origin, replace, db, out.Err == nil, got))
				c.Count("c05_stale_issuance_cases", 1)
				if got {
					c.Violate(run.Violation{Kind: "refresh-issued-against-rule", Key: fmt.Sprintf("refresh-issued-against-rule %s after the registration lost the refresh_token grant (replaced=%v)", origin, replace), Detail: "a refresh token was issued to a client that is not registered for the refresh_token grant at the time of the exchange",
						History: []string{fmt.Sprintf("origin %s, registration replaced=%v, copying store=%v", origin, replace, db), "exchange => " + out.Body}})
				}
			}
		}
	}
}

func C05(c *run.Ctx) {
	c05StaleIssuance(c)
	c.Need("refresh_ok", 1)
	c.Need("c05_refused_after_narrowing", 1)
	c.Need("c05_no_refresh_token_cases", 1)
	var cases []c05Case
	for _, st := range []string{"wildcard", "exact", "hierarchic"} {
		_, grantable := c05Scopes(st)
		for _, rf := range []string{"default", "none", "custom"} {
			for _, or := range []string{"code", "hybrid", "password", "device"} {
				for _, cl := range []string{"c5-full", "c5-norefresh"} {
					for gi, gr := range grantable {
						for _, ed := range []string{"none", "unrelated-scope", "drop-scope", "drop-aud", "drop-refresh-grant", "drop-all-scopes"} {
							for _, pr := range []string{"owner", "foreign"} {
								for _, pa := range []string{"none", "scope-superset", "scope-subset", "scope-other", "aud-other", "both"} {
									aud := []string{"https://api.example/x"}
									if gi%2 == 1 {
										aud = []string{"https://api.example/x", "https://api.example/y/z"}
									}
									if gi == 2 {
										aud = nil
									}
									cases = append(cases, c05Case{Strategy: st, Refresh: rf, Origin: or, Client: cl, Granted: gr, Aud: aud, Edit: ed, Present: pr, Params: pa})
								}
							}
						}
					}
				}
			}
		}
	}
	// quick: a seeded 1/12 sample; thorough: everything
	stride := 1
	if c.Quick() {
		stride = 12
	} else {
		c.Exhaustive = true
	}
	n := 0
	for ci, k := range cases {
		if stride > 1 && mix(uint64(ci), uint64(c.Seed))%uint64(stride) != 0 {
			continue
		}
		n++
		if !c.Mine(n) {
			continue
		}
		if c.Only != "" && c.Only != fmt.Sprint(ci) {
			continue
		}
		k.JWT = ci%2 == 1
		c05Run(c, ci, k)
	}
}

func c05Run(c *run.Ctx, ci int, k c05Case) {
	registered, _ := c05Scopes(k.Strategy)
	w := world.New(world.Opts{JWTAccess: k.JWT, Mode: world.Mode{DB: (ci/2)%3 == 1, Hydrate: (ci/6)%2 == 1}, Cfg: func(cfg *fosite.Config) {
		switch k.Strategy {
		case "exact":
			cfg.ScopeStrategy = fosite.ExactScopeStrategy
		case "hierarchic":
			cfg.ScopeStrategy = fosite.HierarchicScopeStrategy
		}
		switch k.Refresh {
		case "none":
			cfg.RefreshTokenScopes = []string{}
		case "custom":
			cfg.RefreshTokenScopes = []string{"fosite"}
		}
	}})
	allAud := []string{"https://api.example/x", "https://api.example/y"}
	grants := []string{"authorization_code", "implicit", "password", "urn:ietf:params:oauth:grant-type:device_code", "refresh_token"}
	w.AddClient(world.ClientSpec{ID: "c5-full", Secret: "s5", RedirectURIs: []string{"https://c5.example/cb"}, GrantTypes: grants, ResponseTypes: world.AllResponseTypes, Scopes: registered, Audience: allAud})
	w.AddClient(world.ClientSpec{ID: "c5-norefresh", Secret: "s5n", RedirectURIs: []string{"https://c5n.example/cb"}, GrantTypes: grants[:4], ResponseTypes: world.AllResponseTypes, Scopes: registered, Audience: allAud})
	w.AddClient(world.ClientSpec{ID: "C5-FULL", Secret: "s5U", RedirectURIs: []string{"https://c5u.example/cb"}, GrantTypes: grants, ResponseTypes: world.AllResponseTypes, Scopes: registered, Audience: allAud})
	w.AddClient(world.ClientSpec{ID: "C5-NOREFRESH", Secret: "s5NU", RedirectURIs: []string{"https://c5nu.example/cb"}, GrantTypes: grants, ResponseTypes: world.AllResponseTypes, Scopes: registered, Audience: allAud})
	w.AddClient(world.ClientSpec{ID: "c5-pub", Public: true, RedirectURIs: []string{"https://c5p.example/cb"}, GrantTypes: grants, ResponseTypes: world.AllResponseTypes, Scopes: registered, Audience: allAud})
	w.AddClient(world.ClientSpec{ID: "c5-other", Secret: "s5o", RedirectURIs: []string{"https://c5o.example/cb"}, GrantTypes: grants, ResponseTypes: world.AllResponseTypes, Scopes: registered, Audience: allAud})
	s := sim.New(w, c, "refresh-cross-client", "refresh-issued-against-rule", "payload", "refresh-after-registration-narrowed", "rightful-refresh-refused", "refresh-without-client-grant", "dead-unexpected", "requested-scope-changed", "requested-audience-changed")
	caseID := fmt.Sprint(ci)
	s.CaseID = caseID
	granted := k.Granted
	// what the authorization request asks for as audience: everything the registration allows, or (every other case) only
	// the first audience - the resource owner may then grant one that was never requested (a default audience added at consent)
	reqAud := allAud
	if ci%2 == 0 {
		reqAud = allAud[:1]
	}
	var g *sim.Grant
	switch k.Origin {
	case "code":
		// partial consent: more is requested (scopes and audiences the registration allows) than the resource owner grants
		req := addUnique(append([]string{}, granted...), "fosite")
		g = s.Authorize(sim.AuthzReq{Client: k.Client, RT: "code", Scopes: req, Granted: granted, Aud: reqAud, GrantAud: append([]string{}, k.Aud...)})
	case "hybrid":
		granted = append([]string{"openid"}, granted...)
		req := addUnique(append([]string{}, granted...), "fosite")
		g = s.Authorize(sim.AuthzReq{Client: k.Client, RT: "code id_token", Scopes: req, Granted: granted, Aud: reqAud, GrantAud: append([]string{}, k.Aud...)})
	case "password":
		g = s.Password(k.Client, granted)
	case "device":
		g = s.DeviceGrant(k.Client, granted)
	}
	if g == nil {
		c.Inconcl("grant failed: " + k.String() + " | " + strings.Join(s.Hist, " / "))
		return
	}
	if g.Code != nil {
		s.Redeem(g, sim.RedeemOpts{})
	}
	s.Sweep("issue")
	if (k.Origin == "code" || k.Origin == "hybrid") && ci%5 == 0 && k.Refresh != "none" {
		// the request asks for the refresh scope but the resource owner grants nothing of it: no refresh token
		want := []string{"fosite", "offline"}
		gr := []string{}
		rt := "code"
		if k.Origin == "hybrid" {
			want, gr, rt = []string{"openid", "fosite", "offline"}, []string{"openid"}, "code id_token"
		}
		if k.Strategy == "wildcard" || k.Strategy == "hierarchic" || k.Strategy == "exact" {
			if g2 := s.Authorize(sim.AuthzReq{Client: "c5-full", RT: rt, Scopes: want, Granted: gr}); g2 != nil && g2.Code != nil {
				s.Redeem(g2, sim.RedeemOpts{})
				c.Case(fmt.Sprintf("issue with empty consent origin=%s refresh-cfg=%s refresh_token=%v", k.Origin, k.Refresh, g2.Latest != nil))
				c.Count("c05_empty_consent_cases", 1)
			}
		}
	}
	c.Case(fmt.Sprintf("issue origin=%s refresh-cfg=%s client-has-refresh-grant=%v grant-has-refresh-scope=%v refresh_token=%v", k.Origin, k.Refresh, k.Client == "c5-full",
		s.MayIssueRefresh(g, false), g.Latest != nil))
	if g.Latest == nil {
		c.Count("c05_no_refresh_token_cases", 1)
		return
	}
	if k.Client == "c5-norefresh" {
		// only the password flow may hand a refresh token to a client without the refresh_token grant
		// (takePair already judged the issuance rule); it must never be honoured
		out := s.W.Token(url.Values{"grant_type": {"refresh_token"}, "refresh_token": {g.Latest.Value}}, world.Basic(k.Client, "s5n"))
		c.Case("refresh by client lacking the refresh_token grant ok=" + fmt.Sprint(out.Err == nil))
		if out.Err == nil {
			c.Violate(run.Violation{Kind: "refresh-without-client-grant", Key: "refresh-without-client-grant origin=" + k.Origin, Case: caseID, Detail: "a client not registered for refresh_token exchanged a refresh token", History: s.Hist})
		}
		return
	}
	// one ordinary refresh first so that chains are covered too
	if ci%3 == 0 {
		s.Refresh(g.Latest, "", nil)
		s.Sweep("refresh")
	}
	// registration edit
	dc := world.DC(w.Client(k.Client))
	narrowed := false
	switch k.Edit {
	case "unrelated-scope":
		dc.Scopes = removeStr(dc.Scopes, "openid-never-granted")
		dc.Scopes = append(dc.Scopes, "extra")
	case "drop-scope":
		// remove the registration entry that covers the LAST granted scope
		target := g.Scopes[len(g.Scopes)-1]
		var keep []string
		for _, r := range dc.Scopes {
			if spec.Scope(k.Strategy, []string{r}, target) != spec.Yes {
				keep = append(keep, r)
			}
		}
		dc.Scopes = keep
		narrowed = true
	case "drop-all-scopes":
		dc.Scopes = []string{"unrelated"}
		narrowed = len(g.Scopes) > 0
	case "drop-aud":
		if len(g.Aud) > 1 && ci%4 == 0 {
			// only the audience that was granted without having been requested goes; the requested one stays registered
			dc.Audience = []string{"https://api.example/x"}
			narrowed = true
		} else if len(g.Aud) > 0 {
			dc.Audience = []string{"https://api.example/none"}
			narrowed = true
		}
	case "drop-refresh-grant":
		dc.GrantTypes = removeStr(dc.GrantTypes, "refresh_token")
		narrowed = true
	}
	if ci%2 == 1 && k.Edit != "none" {
		// the registration is changed by REPLACING the client record in the store (how an admin API does it), so the client
		// object captured inside stored requests is a stale snapshot
		sp := *w.Specs[k.Client]
		sp.Scopes, sp.Audience, sp.GrantTypes = append([]string(nil), dc.Scopes...), append([]string(nil), dc.Audience...), append([]string(nil), dc.GrantTypes...)
		// restore the old object to its issuance-time state: it now only lives inside stored requests
		orig := w.Specs[k.Client]
		dc.Scopes, dc.Audience, dc.GrantTypes = append([]string(nil), orig.Scopes...), append([]string(nil), orig.Audience...), append([]string(nil), orig.GrantTypes...)
		w.Mem.Clients[k.Client] = sp.Build()
	}
	// refresh parameters
	form := url.Values{}
	switch k.Params {
	case "scope-superset":
		form.Set("scope", strings.Join(append(append([]string{}, g.Scopes...), "admin", "photos.everything"), " "))
	case "scope-subset":
		form.Set("scope", g.Scopes[0])
	case "scope-other":
		form.Set("scope", "admin")
	case "aud-other":
		form["audience"] = []string{"https://api.example/y", "https://evil.example"}
	case "both":
		form.Set("scope", "admin offline")
		form.Set("audience", "https://evil.example")
	}
	as := ""
	if k.Present == "foreign" {
		as = "c5-other"
		if ci%3 == 0 {
			// a different registered client whose id differs from the owner's in letter case only
			as = strings.ToUpper(k.Client)
		}
		if ci%3 == 1 {
			// a public client that identifies itself in the Authorization header (empty password) and names the owner in the body
			as = "c5-pub"
			s.AuthFor = map[string]world.Auth{"c5-pub": {Mode: "raw", RawHeader: "Basic " + base64.StdEncoding.EncodeToString([]byte("c5-pub:"))}}
			form.Set("client_id", k.Client)
		}
	}
	tok := g.Latest
	if narrowed && as == "" {
		// the statement: honoured only while the client is still allowed every granted scope/audience and has the grant
		out := s.W.Token(mergeForm(url.Values{"grant_type": {"refresh_token"}, "refresh_token": {tok.Value}}, form), world.Basic(k.Client, "s5"))
		c.Case(fmt.Sprintf("refresh after edit=%s strategy=%s ok=%v err=%s", k.Edit, k.Strategy, out.Err == nil, out.ErrName))
		c.Count("c05_refused_after_narrowing", 1)
		if c05Sampled < 2 {
			c05Sampled++
			c.Sample(map[string]interface{}{"case": k.String(), "history": append(append([]string(nil), s.Hist...), fmt.Sprintf("registration edit %s, then refresh by the owner => %s", k.Edit, world.ErrDetail(out.Err)))})
		}
		if out.Err == nil {
			c.Violate(run.Violation{Kind: "refresh-after-registration-narrowed", Key: fmt.Sprintf("refresh-after-registration-narrowed edit=%s", k.Edit), Case: caseID,
				Detail: "refresh honoured although the registration no longer allows the grant: " + k.String(), History: s.Hist})
		}
		return
	}
	s.Refresh(tok, as, form)
	s.Sweep("refresh-with-params")
	if c05Sampled < 2 {
		c05Sampled++
		c.Sample(map[string]interface{}{"case": k.String(), "history": s.Hist})
	}
}

// c05Sampled counts the cases this process has written out as samples (each shard is its own process).
var c05Sampled int

func removeStr(xs []string, x string) []string {
	var o []string
	for _, y := range xs {
		if y != x {
			o = append(o, y)
		}
	}
	return o
}

func mergeForm(a, b url.Values) url.Values {
	for k, v := range b {
		a[k] = v
	}
	return a
}

// mix is a small integer hash used to draw seeded samples from enumerated spaces.
func mix(a, b uint64) uint64 {
	x := a*0x9E3779B97F4A7C15 ^ (b+0x7F4A7C15)*0xBF58476D1CE4E5B9
	x ^= x >> 31
	x *= 0x94D049BB133111EB
	x ^= x >> 29
	return x
}
