package mon

import (
	"crypto/sha256"
	"encoding/base64"
	"errors"
	"fmt"
	"net/url"
	"regexp"
	"strings"

	"github.com/ory/fosite"

	"fverif/run"
	"fverif/world"
)

func init() { Registry["C03"] = C03 }

var unreserved = regexp.MustCompile(`^[A-Za-z0-9\-._~]{43,128}$`)

func s256(v string) string {
	h := sha256.Sum256([]byte(v))
	return base64.RawURLEncoding.EncodeToString(h[:])
}

// pkceMay is the independent decision: may a token request with this verifier redeem a code bound to (challenge, method)?
func pkceMay(verifier, challenge, method string, plainEnabled bool) bool {
	if verifier == "" || !unreserved.MatchString(verifier) {
		return false
	}
	switch {
	case strings.EqualFold(method, "S256"):
		return s256(verifier) == challenge
	case strings.EqualFold(method, "plain") || method == "":
		return plainEnabled && verifier == challenge
	}
	return false
}

type pkceSetup struct {
	Enforce int // 0 off, 1 public only, 2 all
	Plain   bool
	Tighten int // 0 none, 1 enforce all after authorization, 2 disable plain after authorization
	Client  string
	RT      string
	VKind   string // good | short | long | badchar
	Method  string // S256 | plain | "" | s256 | PLAIN | none (no challenge)
	BadChar byte
}

func (p pkceSetup) String() string {
	return fmt.Sprintf("enforce=%d plain=%v tighten=%d client=%s rt=%q v=%s method=%q", p.Enforce, p.Plain, p.Tighten, p.Client, p.RT, p.VKind, p.Method)
}

const goodVerifier = "abcdefghijklmnopqrstuvwxyzABCDEFGHIJKLMNOPQRS-._~0123456789"

func designated(kind string, bad byte) string {
	switch kind {
	case "short":
		return goodVerifier[:42]
	case "long":
		return strings.Repeat("a", 129)
	case "badchar":
		b := []byte(goodVerifier)
		b[10] = bad
		return string(b)
	case "unicode":
		// letters and digits outside the unreserved (ASCII) set; 43..128 bytes long
		alts := []string{"\u00e9", "\u0416", "\u03a9", "\uff11", "\u0663", "\u00df"}
		return goodVerifier[:20] + alts[int(bad)%len(alts)] + goodVerifier[20:50]
	}
	return goodVerifier
}

// c03PAR: PAR x PKCE. The challenge that binds the code is the PUSHED one; a code_challenge sent alongside the request_uri
// on the front channel (by whoever handles the URL) must not replace it, and a pushed request without challenge must not
// acquire... (that case is left unspecified: the statement speaks of the authorization request that carried a challenge).
func c03PAR(c *run.Ctx) {
	if !c.Mine(3) && c.NShards > 3 {
		return
	}
	v1 := goodVerifier
	v2 := "Z" + goodVerifier[1:]
	for _, enforce := range []bool{false, true} {
		for _, cl := range []string{"pub-c", "conf-a"} {
			for _, front := range []string{"none", "other-challenge", "other-challenge-plain", "empty-challenge"} {
				w := world.New(world.Opts{Cfg: func(cfg *fosite.Config) {
					cfg.EnforcePKCEForPublicClients = enforce
					cfg.EnablePKCEPlainChallengeMethod = true
				}})
				sp := w.Specs[cl]
				auth := authFor(w, cl)
				p := w.PAR(url.Values{"client_id": {cl}, "response_type": {"code"}, "scope": {"fosite"}, "state": {"state-0123456789"}, "redirect_uri": {sp.RedirectURIs[0]},
					"code_challenge": {s256(v1)}, "code_challenge_method": {"S256"}}, auth)
				if p.Err != nil {
					c.Inconcl("c03PAR: push failed: " + world.ErrDetail(p.Err))
					continue
				}
				q := url.Values{"client_id": {cl}, "request_uri": {p.S("request_uri")}}
				switch front {
				case "other-challenge":
					q.Set("code_challenge", s256(v2))
					q.Set("code_challenge_method", "S256")
				case "other-challenge-plain":
					q.Set("code_challenge", v2)
					q.Set("code_challenge_method", "plain")
				case "empty-challenge":
					q.Set("code_challenge", "")
					q.Set("code_challenge_method", "")
				}
				az := w.Authorize(q, world.Consent{})
				code := az.Params.Get("code")
				if code == "" {
					c.Case(fmt.Sprintf("par-pkce front=%s authorize-refused=%s", front, az.ErrName))
					continue
				}
				redeem := func(verifier string) bool {
					f := url.Values{"grant_type": {"authorization_code"}, "code": {code}, "redirect_uri": {sp.RedirectURIs[0]}}
					if verifier != "" {
						f.Set("code_verifier", verifier)
					}
					out := w.Token(f, auth)
					return out.Err == nil && out.S("access_token") != ""
				}
				hist := []string{"pushed code_challenge=S256(v1)", "front channel: " + front}
				for _, att := range []struct{ name, v string }{{"front-channel-verifier", v2}, {"no-verifier", ""}} {
					ok := redeem(att.v)
					c.Case(fmt.Sprintf("par-pkce front=%s enforce=%v client=%s attempt=%s tokens=%v", front, enforce, cl, att.name, ok))
					c.Count("pkce_attempts_refused", 1)
					if ok {
						c.Violate(run.Violation{Kind: "pkce-bypass", Key: fmt.Sprintf("pkce-bypass par-origin front=%s attempt=%s", front, att.name),
							Detail: "a code whose pushed authorization request carried an S256 challenge was redeemed without the verifier for that challenge", History: hist})
						break
					}
				}
				ok := redeem(v1)
				c.Case(fmt.Sprintf("par-pkce front=%s enforce=%v client=%s attempt=pushed-verifier tokens=%v", front, enforce, cl, ok))
				if ok {
					c.Count("pkce_rightful_success", 1)
				} else {
					c.Count("pkce_rightful_first_attempt_refused", 1)
				}
			}
		}
	}
}

func C03(c *run.Ctx) {
	c03PAR(c)
	c.Need("pkce_rightful_success", 1)
	c.Need("pkce_attempts_refused", 1)
	maxLen := 3
	if !c.Quick() {
		maxLen = 4
	}
	alphabet := []string{"V", "wrong", "none", "downgrade", "oddgrant", "faulted", "padded"}
	var seqs [][]string
	var gen func(cur []string)
	gen = func(cur []string) {
		if len(cur) > 0 {
			seqs = append(seqs, append([]string(nil), cur...))
		}
		if len(cur) == maxLen {
			return
		}
		for _, a := range alphabet {
			gen(append(cur, a))
		}
	}
	gen(nil)
	badChars := []byte{'!', '+', '/', ':', '=', '@', '[', '`', '{', '|', ' ', '%', '*', ','}
	var setups []pkceSetup
	for enforce := 0; enforce < 3; enforce++ {
		for _, plain := range []bool{false, true} {
			for tighten := 0; tighten < 3; tighten++ {
				for _, cl := range []string{"pub-c", "conf-a"} {
					for _, rt := range []string{"code", "code id_token", "code token", "code id_token token"} {
						for _, vk := range []string{"good", "short", "long", "badchar", "unicode"} {
							for _, m := range []string{"S256", "plain", "", "s256", "PLAIN", "none"} {
								if m == "none" && vk != "good" {
									continue
								}
								setups = append(setups, pkceSetup{Enforce: enforce, Plain: plain, Tighten: tighten, Client: cl, RT: rt, VKind: vk, Method: m})
							}
						}
					}
				}
			}
		}
	}
	c.Exhaustive = true
	idx := 0
	for si, su := range setups {
		if !c.Mine(si) {
			continue
		}
		su.BadChar = badChars[si%len(badChars)]
		V := designated(su.VKind, su.BadChar)
		challenge := ""
		switch {
		case su.Method == "none":
		case strings.EqualFold(su.Method, "S256"):
			challenge = s256(V)
		default:
			challenge = V
		}
		w := world.New(world.Opts{JWTAccess: si%2 == 1, Cfg: func(cfg *fosite.Config) {
			cfg.EnforcePKCE = su.Enforce == 2
			cfg.EnforcePKCEForPublicClients = su.Enforce == 1
			cfg.EnablePKCEPlainChallengeMethod = su.Plain
		}})
		sp := w.Specs[su.Client]
		auth := world.Basic(su.Client, sp.Secret)
		if sp.Public {
			auth = world.Public(su.Client)
		}
		issued := false
		// in quick mode sample the longest sequences
		for qi, seq := range seqs {
			if c.Quick() && len(seq) == maxLen && (qi+si)%6 != 0 {
				c.Exhaustive = false
				continue
			}
			if !c.Quick() && len(seq) == maxLen && (qi+si)%3 != 0 {
				// thorough: every sequence up to length 3 for every setup, a third of the length-4 sequences (rotating with the setup)
				c.Exhaustive = false
				continue
			}
			idx++
			// authorization under the loose configuration
			w.Cfg.EnforcePKCE = su.Enforce == 2
			w.Cfg.EnablePKCEPlainChallengeMethod = su.Plain
			q := url.Values{"client_id": {su.Client}, "response_type": {su.RT}, "state": {"state-0123456789"}, "nonce": {"nonce-0123456789"},
				"redirect_uri": {sp.RedirectURIs[0]}, "scope": {"openid offline"}}
			if su.Method != "none" {
				q.Set("code_challenge", challenge)
				if su.Method != "" {
					q.Set("code_challenge_method", su.Method)
				}
			}
			az := w.Authorize(q, world.Consent{})
			code := az.Params.Get("code")
			if code == "" {
				// authorization refused: nothing to redeem under this setup
				c.Case("authorize-refused " + fmt.Sprintf("enforce=%d plain=%v method=%q pub=%v err=%s", su.Enforce, su.Plain, su.Method, sp.Public, az.ErrName))
				// plain accepted at authorization only if enabled; enforcement applies at authorization too
				break
			}
			issued = true
			// statement clauses about the authorization endpoint itself
			if su.Method != "none" && !strings.EqualFold(su.Method, "S256") && !su.Plain {
				c.Violate(run.Violation{Kind: "plain-accepted-while-disabled", Key: fmt.Sprintf("plain-accepted-while-disabled method=%q", su.Method), Case: su.String(),
					Detail: "authorization endpoint issued a code for a non-S256 challenge although plain is disabled"})
			}
			// tighten between authorization and redemption
			switch su.Tighten {
			case 1:
				w.Cfg.EnforcePKCE = true
			case 2:
				w.Cfg.EnablePKCEPlainChallengeMethod = false
			}
			plainNow := w.Cfg.EnablePKCEPlainChallengeMethod
			enforceAllNow := w.Cfg.EnforcePKCE
			enforcePubNow := w.Cfg.EnforcePKCEForPublicClients
			var prev []string
			for ai, att := range seq {
				verifier := ""
				switch att {
				case "V":
					verifier = V
				case "wrong":
					verifier = "Z" + goodVerifier[1:]
				case "none":
				case "downgrade":
					// present the public challenge itself / the hash of the verifier
					if strings.EqualFold(su.Method, "S256") {
						verifier = challenge
					} else {
						verifier = s256(V)
					}
				}
				form := url.Values{"grant_type": {"authorization_code"}, "code": {code}, "redirect_uri": {sp.RedirectURIs[0]}}
				if att != "none" && att != "oddgrant" && att != "faulted" && att != "padded" {
					form.Set("code_verifier", verifier)
				}
				if att == "padded" {
					// no verifier, and the code is presented with surrounding whitespace: whichever handlers tolerate that, they must
					// agree on which code it is
					form.Set("code", []string{code + " ", code + "\n", " " + code, code + "\t", code + "%20"}[(ai+si+qi)%5])
				}
				if att == "faulted" {
					// no verifier, and the store cannot answer the lookup of the challenge (a transient failure, not "not found")
					fault := []error{fosite.ErrSerializationFailure, errors.New("injected: connection reset"), fosite.ErrServerError}[(ai+si+qi)%3]
					// half of the time only the first lookup fails (a transient fault), otherwise every lookup of the request
					first := (ai+si+qi)%2 == 0
					w.Store.Pre = func(cl *world.Call) error {
						if cl.Method == "GetPKCERequestSession" {
							if first {
								w.Store.Pre = nil
							}
							return fault
						}
						return nil
					}
				}
				if att == "oddgrant" {
					// no verifier and an unusual spelling of the grant type: handlers must not disagree on who is responsible
					form.Set("grant_type", []string{"authorization_code authorization_code", "Authorization_Code", "AUTHORIZATION_CODE", "authorization_code refresh_token", " authorization_code"}[(ai+si+qi)%5])
				}
				out := w.Token(form, auth)
				w.Store.Pre = nil
				ok := out.Err == nil && out.S("access_token") != ""
				may := true
				unspecified := false
				if su.Method != "none" {
					may = pkceMay(verifier, challenge, su.Method, plainNow)
				} else {
					if enforceAllNow || (enforcePubNow && sp.Public) {
						may = false
					} else {
						unspecified = true
					}
				}
				c.Case(fmt.Sprintf("attempt=%s pos=%d method=%q v=%s enforce=%d/%v plainNow=%v pub=%v may=%v ok=%v err=%s", att, ai, su.Method, su.VKind, su.Enforce, enforceAllNow, plainNow, sp.Public, may, ok, out.ErrName))
				if unspecified {
					c.Unspecified("code-without-challenge-no-enforcement")
				}
				if ok && !may {
					failedBefore := len(prev) > 0
					c.Violate(run.Violation{Kind: "pkce-bypass", Key: fmt.Sprintf("pkce-bypass attempt=%s method=%q v=%s after-failed-attempts=%v", att, su.Method, su.VKind, failedBefore), Case: su.String(),
						Detail:  fmt.Sprintf("tokens issued for attempt %q (verifier %q) after previous attempts %v; challenge=%q method=%q plainNow=%v enforceAll=%v", att, verifier, prev, challenge, su.Method, plainNow, enforceAllNow),
						History: []string{su.String(), fmt.Sprintf("sequence %v", seq)}})
				}
				if ok {
					if may && !unspecified && len(prev) == 0 {
						c.Count("pkce_rightful_success", 1)
					}
					break
				}
				c.Count("pkce_attempts_refused", 1)
				if may && !unspecified && len(prev) == 0 && su.Tighten == 0 {
					// fresh code, first attempt, right verifier: vacuity guard (not a demand of C03)
					c.Count("pkce_rightful_first_attempt_refused", 1)
				}
				prev = append(prev, att)
			}
		}
		if issued && si < 2*c.NShards {
			c.Sample(map[string]interface{}{"setup": su.String(), "sequences": len(seqs), "example_sequence": seqs[len(seqs)/2]})
		}
	}
	c.DisjointN = 0
}
