package mon

import (
	"net/url"
	"testing"
	"time"

	"fverif/world"
)

func TestDbgExpiredAssertion(t *testing.T) {
	w := c15World(nil)
	keys := world.GetKeys()
	{
		cl := map[string]interface{}{"iss": "pk-rs", "sub": "pk-rs", "aud": world.TokenURL, "exp": time.Now().Add(time.Hour).Unix(), "jti": nextJTI("dbg")}
		as := world.SignJWT(keys.ClientRSA[1], "RS256", map[string]interface{}{"kid": "k0"}, cl)
		out := w.Token(url.Values{"grant_type": {"client_credentials"}}, world.Auth{Mode: "none", Assertion: as})
		t.Logf("foreign key -> %s | %s", out.ErrName, world.ErrDetail(out.Err))
		out = w.Token(url.Values{"grant_type": {"client_credentials"}}, world.Auth{Mode: "none", Assertion: as[:len(as)-4] + "AAAA"})
		t.Logf("tampered sig -> %s | %s", out.ErrName, world.ErrDetail(out.Err))
		out = w.Token(url.Values{"grant_type": {"client_credentials"}}, world.Auth{Mode: "none", Assertion: "a.b.c"})
		t.Logf("garbage -> %s | %s", out.ErrName, world.ErrDetail(out.Err))
		out = w.Token(url.Values{"grant_type": {"client_credentials"}}, world.Auth{Mode: "none", Assertion: "garbage"})
		t.Logf("garbage2 -> %s | %s", out.ErrName, world.ErrDetail(out.Err))
	}
	for _, d := range []time.Duration{-time.Hour, -2 * time.Second} {
		for _, extra := range []map[string]interface{}{nil, {"nbf": time.Now().Add(time.Hour).Unix()}, {"iat": time.Now().Add(time.Hour).Unix()}} {
			cl := map[string]interface{}{"iss": "pk-rs", "sub": "pk-rs", "aud": world.TokenURL, "exp": time.Now().Add(d).Unix(), "jti": nextJTI("dbg")}
			if extra != nil {
				cl["exp"] = time.Now().Add(time.Hour).Unix()
				for k, v := range extra {
					cl[k] = v
				}
			}
			as := world.SignJWT(keys.ClientRSA[0], "RS256", map[string]interface{}{"kid": "k0"}, cl)
			out := w.Token(url.Values{"grant_type": {"client_credentials"}}, world.Auth{Mode: "none", Assertion: as})
			t.Logf("d=%v extra=%v -> %s | %s", d, extra, out.ErrName, world.ErrDetail(out.Err))
		}
	}
}
