package mon

import (
	"context"
	"crypto/hmac"
	"crypto/sha256"
	"crypto/sha512"
	"encoding/base64"
	"encoding/json"
	"fmt"
	"hash"
	"math/rand"
	"net/url"
	"strings"
	"time"

	"github.com/go-jose/go-jose/v3"

	"github.com/ory/fosite"
	"github.com/ory/fosite/compose"
	thmac "github.com/ory/fosite/token/hmac"

	"fverif/run"
	"fverif/world"
)

func init() { Registry["C06"] = C06 }

var b64u = base64.RawURLEncoding

type hcfg struct {
	Global  []byte
	Rotated [][]byte
	Hasher  string // "" (sha512/256) | sha256 | sha512
	Entropy int
}

func (h hcfg) hashFn() func() hash.Hash {
	switch h.Hasher {
	case "sha256":
		return sha256.New
	case "sha512":
		return sha512.New
	}
	return sha512.New512_256
}

// refMAC is the independent computation: HMAC over the decoded random part with the first 32 bytes of the secret.
func refMAC(h hcfg, secret, key []byte) []byte {
	var k [32]byte
	copy(k[:], secret)
	m := hmac.New(h.hashFn(), k[:])
	m.Write(key)
	return m.Sum(nil)
}

// refAuth: can this credential authenticate under the configuration? (strict decoding; returns authenticates, canonical)
func refAuth(h hcfg, token string) (bool, bool) {
	parts := strings.Split(token, ".")
	if len(parts) != 2 || parts[0] == "" || parts[1] == "" {
		return false, false
	}
	key, err1 := b64u.DecodeString(parts[0])
	sig, err2 := b64u.DecodeString(parts[1])
	if err1 != nil || err2 != nil {
		return false, false
	}
	canonical := b64u.EncodeToString(key) == parts[0] && b64u.EncodeToString(sig) == parts[1]
	var secrets [][]byte
	if len(h.Global) > 0 {
		secrets = append(secrets, h.Global)
	}
	secrets = append(secrets, h.Rotated...)
	for _, s := range secrets {
		if len(s) < 32 {
			continue
		}
		if hmac.Equal(refMAC(h, s, key), sig) {
			return true, canonical
		}
	}
	return false, canonical
}

func secretN(tag string, n int) []byte {
	b := []byte(strings.Repeat(tag+"-secret-material-", 8))
	return b[:n]
}

func (h hcfg) config() *fosite.Config {
	c := &fosite.Config{GlobalSecret: h.Global, RotatedGlobalSecrets: h.Rotated, TokenEntropy: h.Entropy}
	if h.Hasher != "" {
		c.HMACHasher = h.hashFn()
	}
	return c
}

func C06(c *run.Ctx) {
	c.Need("c06_mutants_rejected", 1)
	c.Need("c06_minted_accepted", 1)
	c.Need("c06_e2e_mutants_rejected", 1)
	c.Need("c06_jwt_forgeries_rejected", 1)
	ctx := context.Background()
	r := caseRng(c, 0)
	// ---------------- (i) strategy level ----------------
	sA, sB, sC := secretN("alpha", 40), secretN("bravo", 40), secretN("charlie", 64)
	s31 := append(append([]byte{}, sA[:31]...), []byte("X-different-tail")...) // equal to sA in the first 31 bytes only
	s32 := append(append([]byte{}, sA[:32]...), []byte("-other-tail")...)      // equal to sA in the first 32 bytes
	var cfgs []hcfg
	for _, hs := range []string{"", "sha256", "sha512"} {
		for _, en := range []int{0, 16, 32, 64} {
			cfgs = append(cfgs,
				hcfg{Global: sA, Hasher: hs, Entropy: en},
				hcfg{Global: sA, Rotated: [][]byte{sB}, Hasher: hs, Entropy: en},
				hcfg{Global: sB, Rotated: [][]byte{sC, sA}, Hasher: hs, Entropy: en},
				hcfg{Global: sC, Rotated: [][]byte{sB, s31, sA, sC}, Hasher: hs, Entropy: en},
				hcfg{Global: nil, Rotated: [][]byte{sA}, Hasher: hs, Entropy: en},
			)
		}
	}
	nTok := 2
	if !c.Quick() {
		nTok = 32
	}
	for ci, h := range cfgs {
		if !c.Mine(ci) {
			continue
		}
		validator := &thmac.HMACStrategy{Config: h.config()}
		// tokens minted under each secret that is (or is not) configured
		type minted struct {
			tok    string
			secret string
		}
		var pool []minted
		for name, sec := range map[string][]byte{"alpha": sA, "bravo": sB, "charlie": sC, "s31": s31, "s32": s32, "foreign": secretN("zulu", 48)} {
			gen := &thmac.HMACStrategy{Config: hcfg{Global: sec, Hasher: h.Hasher, Entropy: h.Entropy}.config()}
			for i := 0; i < nTok; i++ {
				tok, sig, err := gen.Generate(ctx)
				if err != nil {
					c.Violate(run.Violation{Kind: "generate-failed", Key: "generate-failed", Detail: err.Error()})
					continue
				}
				if gen.Signature(tok) != sig || strings.Split(tok, ".")[1] != sig {
					c.Violate(run.Violation{Kind: "signature-not-second-part", Key: "signature-not-second-part", Detail: tok})
				}
				key, _ := b64u.DecodeString(strings.Split(tok, ".")[0])
				want := h.Entropy
				if want < 32 {
					want = 32
				}
				if len(key) < want {
					c.Violate(run.Violation{Kind: "entropy-too-short", Key: fmt.Sprintf("entropy-too-short configured=%d", h.Entropy), Detail: fmt.Sprintf("random part has %d bytes, configured entropy %d", len(key), h.Entropy)})
				}
				pool = append(pool, minted{tok, name})
			}
		}
		judge := func(tok, what string) {
			may, canonical := refAuth(h, tok)
			err := validator.Validate(ctx, tok)
			c.Case(fmt.Sprintf("strategy %s hasher=%q nsecrets=%d authenticates=%v canonical=%v accepted=%v", what, h.Hasher, len(h.Rotated)+1, may, canonical, err == nil))
			if !may && err == nil {
				c.Violate(run.Violation{Kind: "forged-accepted", Key: "forged-accepted strategy " + what, Detail: fmt.Sprintf("Validate accepted %q which cannot authenticate under the configured secrets (%s)", tok, what)})
			}
			if !may {
				c.Count("c06_mutants_rejected", 1)
			}
			if may && !canonical {
				c.Unspecified("non-canonical-encoding-of-authentic-bytes")
			}
		}
		for _, m := range pool {
			may, _ := refAuth(h, m.tok)
			err := validator.Validate(ctx, m.tok)
			c.Case(fmt.Sprintf("strategy minted-under=%s authenticates=%v accepted=%v", m.secret, may, err == nil))
			if may && err != nil && m.secret != "s32" {
				c.Violate(run.Violation{Kind: "minted-rejected", Key: "minted-rejected secret=" + m.secret, Detail: fmt.Sprintf("token minted under configured secret %s rejected: %v", m.secret, err)})
			}
			if may && err == nil {
				c.Count("c06_minted_accepted", 1)
			}
			if !may && err == nil {
				c.Violate(run.Violation{Kind: "forged-accepted", Key: "forged-accepted minted-under=" + m.secret, Detail: fmt.Sprintf("token minted under %s accepted although that secret is not configured", m.secret)})
			}
			if m.secret == "s32" {
				c.Unspecified("secret-equal-in-first-32-bytes")
			}
		}
		// mutation operators on tokens that DO authenticate
		var good []string
		for _, m := range pool {
			if ok, _ := refAuth(h, m.tok); ok && m.secret != "s32" {
				good = append(good, m.tok)
			}
		}
		for gi, tok := range good {
			if gi >= 2 && c.Quick() {
				break
			}
			parts := strings.Split(tok, ".")
			key, _ := b64u.DecodeString(parts[0])
			sig, _ := b64u.DecodeString(parts[1])
			for bit := 0; bit < len(key)*8; bit++ {
				k2 := append([]byte(nil), key...)
				k2[bit/8] ^= 1 << uint(bit%8)
				judge(b64u.EncodeToString(k2)+"."+parts[1], "bitflip-random-part")
			}
			for bit := 0; bit < len(sig)*8; bit++ {
				s2 := append([]byte(nil), sig...)
				s2[bit/8] ^= 1 << uint(bit%8)
				judge(parts[0]+"."+b64u.EncodeToString(s2), "bitflip-signature-part")
			}
			for n := 0; n < len(tok); n += 1 + len(tok)/40 {
				judge(tok[:n], "truncate")
			}
			for _, x := range []string{parts[0], parts[1], parts[1] + "." + parts[0], parts[0] + "." + parts[0], parts[1] + "." + parts[1], tok + ".", "." + tok, tok + "." + parts[1], parts[0] + "..", "." + parts[1], parts[0] + ".",
				"ory_at_" + tok, " " + tok, tok + " ", strings.ToUpper(tok), parts[0] + "=." + parts[1], parts[0] + "." + parts[1] + "=", tok + "A", "", ".", ".."} {
				judge(x, "structure")
			}
			for _, other := range good {
				if other != tok {
					op := strings.Split(other, ".")
					judge(op[0]+"."+parts[1], "swap-parts")
				}
			}
		}
	}
	// short secrets are refused
	if c.Shard == 0 {
		for _, n := range []int{0, 1, 16, 31} {
			short := secretN("short", n)
			g := &thmac.HMACStrategy{Config: hcfg{Global: short}.config()}
			_, _, err := g.Generate(ctx)
			c.Case(fmt.Sprintf("short-secret len=%d generate-refused=%v", n, err != nil))
			if err == nil {
				c.Violate(run.Violation{Kind: "short-secret-accepted", Key: fmt.Sprintf("short-secret-accepted generate len=%d", n), Detail: "Generate worked with a short secret"})
			}
			// a token that would authenticate under the zero-padded short secret
			long := &thmac.HMACStrategy{Config: hcfg{Global: append(append([]byte{}, short...), make([]byte, 32-n)...)}.config()}
			tok, _, _ := long.Generate(ctx)
			if err := g.Validate(ctx, tok); err == nil {
				c.Violate(run.Violation{Kind: "short-secret-accepted", Key: fmt.Sprintf("short-secret-accepted validate len=%d", n), Detail: "Validate worked with a short secret"})
			}
			v := &thmac.HMACStrategy{Config: hcfg{Global: sA, Rotated: [][]byte{short}}.config()}
			if err := v.Validate(ctx, tok); err == nil {
				c.Violate(run.Violation{Kind: "short-secret-accepted", Key: fmt.Sprintf("short-secret-accepted rotated len=%d", n), Detail: "a short rotated secret authenticated a token"})
			}
			// every shipped generator that signs under the global secret refuses it: the core strategy's codes and tokens, the device
			// strategy's device and user codes
			scfg := &fosite.Config{GlobalSecret: short}
			core := compose.NewOAuth2HMACStrategy(scfg)
			dev := compose.NewDeviceStrategy(scfg)
			gens := map[string]func() (string, string, error){
				"access_token":       func() (string, string, error) { return core.GenerateAccessToken(ctx, nil) },
				"refresh_token":      func() (string, string, error) { return core.GenerateRefreshToken(ctx, nil) },
				"authorization_code": func() (string, string, error) { return core.GenerateAuthorizeCode(ctx, nil) },
				"device_code":        func() (string, string, error) { return dev.GenerateDeviceCode(ctx) },
				"user_code":          func() (string, string, error) { return dev.GenerateUserCode(ctx) },
			}
			for name, gen := range gens {
				tok, sig, err := gen()
				c.Case(fmt.Sprintf("short-secret len=%d generator=%s refused=%v", n, name, err != nil))
				c.Count("c06_short_secret_generators", 1)
				if err == nil {
					c.Violate(run.Violation{Kind: "short-secret-accepted", Key: "short-secret-accepted generator=" + name,
						Detail: fmt.Sprintf("the %s generator reported success (value %q, signature %q) under a %d-byte global secret", name, tok, sig, n)})
				}
			}
		}
	}
	// ---------------- (ii) end to end ----------------
	c06EndToEnd(c, r)
	c06LiveRotation(c)
	// ---------------- (iii) JWT access tokens ----------------
	c06JWT(c, r)
	// ---------------- (iv) minting ----------------
	c06Mint(c)
}

// c06EndToEnd: lookup by signature is always followed by validation of the presented string.
func c06EndToEnd(c *run.Ctx, r *rand.Rand) {
	for vi := 0; vi < 4; vi++ {
		if !c.Mine(vi) && c.NShards >= 4 {
			continue
		}
		unlimited := vi%2 == 1
		rotated := vi/2 == 1
		w := world.New(world.Opts{Cfg: func(cfg *fosite.Config) {
			if unlimited {
				cfg.RefreshTokenLifespan = -1
			}
			if rotated {
				cfg.RotatedGlobalSecrets = [][]byte{cfg.GlobalSecret}
				cfg.GlobalSecret = secretN("new-global", 40)
			}
		}})
		a := world.Basic("conf-a", "secret-of-a")
		mk := func() (code, at, rt, dc string) {
			az := w.Authorize(url.Values{"client_id": {"conf-a"}, "response_type": {"code"}, "scope": {"offline fosite"}, "state": {"state-0123456789"}, "redirect_uri": {"https://app-a.example/cb"}}, world.Consent{})
			code = az.Params.Get("code")
			az2 := w.Authorize(url.Values{"client_id": {"conf-a"}, "response_type": {"code"}, "scope": {"offline fosite"}, "state": {"state-0123456789"}, "redirect_uri": {"https://app-a.example/cb"}}, world.Consent{})
			out := w.Token(url.Values{"grant_type": {"authorization_code"}, "code": {az2.Params.Get("code")}, "redirect_uri": {"https://app-a.example/cb"}}, a)
			at, rt = out.S("access_token"), out.S("refresh_token")
			dv := w.Device(url.Values{"client_id": {"conf-a"}, "scope": {"offline"}}, a)
			_ = w.DeviceDecide(dv.S("user_code"), true, "user-d", nil, false)
			dc = dv.S("device_code")
			return
		}
		code, at, rt, dc := mk()
		code2, at2, rt2, dc2 := mk()
		if code == "" || at == "" || rt == "" || dc == "" {
			c.Inconcl("c06 e2e setup failed")
			return
		}
		// mutants keep the stored signature part and change the random part
		mutants := func(tok, donor string) []string {
			pre, body := splitPrefix(tok)
			parts := strings.Split(body, ".")
			key, _ := b64u.DecodeString(parts[0])
			var out []string
			for _, bit := range []int{0, 7, 8, 100, len(key)*8 - 1} {
				k2 := append([]byte(nil), key...)
				k2[bit/8] ^= 1 << uint(bit%8)
				out = append(out, pre+b64u.EncodeToString(k2)+"."+parts[1])
			}
			_, dbody := splitPrefix(donor)
			dparts := strings.Split(dbody, ".")
			out = append(out, pre+dparts[0]+"."+parts[1])                             // foreign random part + stored signature
			out = append(out, pre+b64u.EncodeToString(make([]byte, 32))+"."+parts[1]) // zero random part
			out = append(out, pre+"AAAA."+parts[1], pre+"."+parts[1])
			// random parts that are not even well-formed base64url: one character, a length of 4n+1, characters outside the alphabet, padding
			out = append(out, pre+"A."+parts[1], pre+parts[0][:41]+"."+parts[1], pre+"!!"+parts[0][2:]+"."+parts[1], pre+parts[0][:40]+"=="+"."+parts[1], pre+parts[0]+"\x00."+parts[1])
			out = append(out, "ory_xx_"+dparts[0]+"."+parts[1])
			return out
		}
		e2e := func(kind, entry string, ok bool, tok string) {
			c.Case(fmt.Sprintf("e2e kind=%s entry=%s unlimited-rt=%v rotated=%v accepted=%v", kind, entry, unlimited, rotated, ok))
			if ok {
				c.Violate(run.Violation{Kind: "forged-accepted", Key: fmt.Sprintf("forged-accepted e2e kind=%s entry=%s", kind, entry), Detail: fmt.Sprintf("stored signature with a different random part accepted at %s: %s (unlimited refresh=%v)", entry, tok, unlimited)})
			} else {
				c.Count("c06_e2e_mutants_rejected", 1)
			}
		}
		for _, m := range mutants(at, at2) {
			e2e("access", "introspection", w.IntrospectAPI(m, fosite.AccessToken).Active, m)
			e2e("access", "introspection-bearer", w.IntrospectHTTP(url.Values{"token": {rt}}, world.Auth{}, m).Err == nil, m)
		}
		if !w.IntrospectAPI(at, fosite.AccessToken).Active {
			c.Violate(run.Violation{Kind: "minted-rejected", Key: "minted-rejected e2e access after mutants", Detail: "the authentic access token is no longer active after mutants of it were presented (revocation by forged token?)"})
		}
		for _, m := range mutants(rt, rt2) {
			e2e("refresh", "introspection", w.IntrospectAPI(m, fosite.RefreshToken).Active, m)
			out := w.Token(url.Values{"grant_type": {"refresh_token"}, "refresh_token": {m}}, a)
			e2e("refresh", "token-endpoint", out.Err == nil, m)
		}
		for _, m := range mutants(code, code2) {
			out := w.Token(url.Values{"grant_type": {"authorization_code"}, "code": {m}, "redirect_uri": {"https://app-a.example/cb"}}, a)
			e2e("code", "token-endpoint", out.Err == nil, m)
		}
		for _, m := range mutants(dc, dc2) {
			out := w.Token(url.Values{"grant_type": {"urn:ietf:params:oauth:grant-type:device_code"}, "device_code": {m}}, a)
			e2e("device_code", "token-endpoint", out.Err == nil, m)
		}
		// the authentic credentials still work afterwards
		okc := w.Token(url.Values{"grant_type": {"authorization_code"}, "code": {code}, "redirect_uri": {"https://app-a.example/cb"}}, a).Err == nil
		okr := w.Token(url.Values{"grant_type": {"refresh_token"}, "refresh_token": {rt}}, a).Err == nil
		okd := w.Token(url.Values{"grant_type": {"urn:ietf:params:oauth:grant-type:device_code"}, "device_code": {dc}}, a).Err == nil
		c.Case(fmt.Sprintf("e2e authentic-after-mutants code=%v refresh=%v device=%v", okc, okr, okd))
		if okc && okr && okd {
			c.Count("c06_minted_accepted", 3)
		} else {
			c.Violate(run.Violation{Kind: "minted-rejected", Key: "minted-rejected e2e after mutants", Detail: fmt.Sprintf("authentic credentials after forged presentations: code=%v refresh=%v device=%v", okc, okr, okd)})
		}
		c.Sample(map[string]interface{}{"e2e_world": fmt.Sprintf("unlimited-refresh=%v rotated-secret=%v", unlimited, rotated), "example_mutants": mutants(at, at2)[:3]})
	}
}

// c06LiveRotation: the operator rotates and retires global secrets on a LIVE provider (the Config is edited between requests,
// nothing is rebuilt). At every stage a credential is honoured iff the secret it was minted under is the current or a rotated
// one at that moment: in particular a retired secret stops working at once, also when the current secret did not change, and a
// secret added to the rotated list starts working at once.
func c06LiveRotation(c *run.Ctx) {
	if !c.Mine(2) && c.NShards > 2 {
		return
	}
	sA, sB, sC := secretN("live-A", 40), secretN("live-B", 40), secretN("live-C", 40)
	for _, jwtAccess := range []bool{false, true} {
		w := world.New(world.Opts{JWTAccess: jwtAccess, Cfg: func(cfg *fosite.Config) {
			cfg.GlobalSecret = sA
			cfg.RotatedGlobalSecrets = nil
			cfg.RefreshTokenLifespan = -1
		}})
		a := world.Basic("conf-a", "secret-of-a")
		type cred struct{ under, kind, val string }
		var creds []cred
		mint := func(under string) {
			out := w.Token(url.Values{"grant_type": {"password"}, "username": {world.UserName}, "password": {world.UserPass}, "scope": {"offline fosite"}}, a)
			if out.Err != nil {
				c.Inconcl("c06 live rotation: password grant failed: " + world.ErrDetail(out.Err))
				return
			}
			if !jwtAccess {
				creds = append(creds, cred{under, "access", out.S("access_token")})
			}
			creds = append(creds, cred{under, "refresh", out.S("refresh_token")})
		}
		known := map[string]bool{}
		stage := func(name string, global []byte, rotated [][]byte, names ...string) {
			w.Cfg.GlobalSecret, w.Cfg.RotatedGlobalSecrets = global, rotated
			known = map[string]bool{}
			for _, n := range names {
				known[n] = true
			}
			for _, cr := range creds {
				var ok bool
				switch cr.kind {
				case "access":
					ok = w.IntrospectAPI(cr.val, fosite.AccessToken).Active
				case "refresh":
					ok = w.IntrospectAPI(cr.val, fosite.RefreshToken).Active
				}
				c.Case(fmt.Sprintf("live-rotation stage=%s kind=%s minted-under=%s secret-known=%v honoured=%v jwt-access=%v", name, cr.kind, cr.under, known[cr.under], ok, jwtAccess))
				c.Count("c06_live_rotation_probes", 1)
				switch {
				case ok && !known[cr.under]:
					c.Violate(run.Violation{Kind: "forged-accepted", Key: fmt.Sprintf("forged-accepted live-rotation kind=%s minted under a retired secret, stage=%s", cr.kind, name),
						Detail: fmt.Sprintf("a %s token minted under secret %s is honoured at stage %q where that secret is neither current nor rotated", cr.kind, cr.under, name)})
				case !ok && known[cr.under]:
					c.Violate(run.Violation{Kind: "minted-rejected", Key: fmt.Sprintf("minted-rejected live-rotation kind=%s stage=%s", cr.kind, name),
						Detail: fmt.Sprintf("a %s token minted under secret %s is refused at stage %q where that secret is current or rotated", cr.kind, cr.under, name)})
				}
			}
		}
		mint("A")
		stage("A current", sA, nil, "A")
		stage("B current, A rotated", sB, [][]byte{sA}, "A", "B")
		mint("B")
		stage("B current, A rotated (after minting under B)", sB, [][]byte{sA}, "A", "B")
		stage("B current, A retired", sB, nil, "B")
		stage("B current, C added as rotated", sB, [][]byte{sC}, "B")
		stage("B current, A brought back as rotated", sB, [][]byte{sC, sA}, "A", "B")
		stage("C current, B rotated, A retired", sC, [][]byte{sB}, "B")
		mint("C")
		stage("C current, nothing rotated", sC, [][]byte{}, "C")
		stage("A current again, C rotated", sA, [][]byte{sC}, "A", "C")
	}
	c.Sample(map[string]interface{}{"live_rotation": "one provider, Config.GlobalSecret / RotatedGlobalSecrets edited between requests, 9 stages x {opaque, JWT access}"})
}

func c06JWT(c *run.Ctx, r *rand.Rand) {
	if !c.Mine(1) && c.NShards > 1 {
		return
	}
	keys := world.GetKeys()
	for ki, idKey := range []interface{}{nil, &jose.JSONWebKey{Key: keys.ServerEC["P-256"], Algorithm: "ES256", KeyID: "ec1", Use: "sig"}} {
		w := world.New(world.Opts{JWTAccess: true, IDKey: idKey})
		a := world.Basic("conf-a", "secret-of-a")
		out := w.Token(url.Values{"grant_type": {"client_credentials"}, "scope": {"fosite"}}, a)
		out2 := w.Token(url.Values{"grant_type": {"client_credentials"}, "scope": {"fosite photos"}}, a)
		jat, jat2 := out.S("access_token"), out2.S("access_token")
		hdr, pl, ok := world.DecodeJWT(jat)
		if !ok {
			c.Inconcl("no JWT access token")
			return
		}
		p1, p2 := strings.Split(jat, "."), strings.Split(jat2, ".")
		var pubBytes []byte
		var pub interface{}
		if ki == 0 {
			pub = &keys.ServerRSA.PublicKey
			pubBytes = keys.ServerRSA.PublicKey.N.Bytes()
		} else {
			pub = &keys.ServerEC["P-256"].PublicKey
			pubBytes = keys.ServerEC["P-256"].PublicKey.X.Bytes()
		}
		// independent check that the minted one verifies under the public key with an asymmetric algorithm
		if jws, err := jose.ParseSigned(jat); err != nil {
			c.Violate(run.Violation{Kind: "jwt-minted-bad", Key: "jwt-minted-bad parse", Detail: err.Error()})
		} else if _, err := jws.Verify(pub); err != nil {
			c.Violate(run.Violation{Kind: "jwt-minted-bad", Key: "jwt-minted-bad verify", Detail: err.Error()})
		} else if alg := jws.Signatures[0].Header.Algorithm; strings.HasPrefix(alg, "HS") || alg == "none" {
			c.Violate(run.Violation{Kind: "jwt-minted-bad", Key: "jwt-minted-bad alg " + alg, Detail: "minted with symmetric/none algorithm"})
		}
		ed := func(f func(m map[string]interface{})) map[string]interface{} {
			m := map[string]interface{}{}
			for k, v := range pl {
				m[k] = v
			}
			f(m)
			return m
		}
		evil := ed(func(m map[string]interface{}) { m["scp"] = []string{"admin"}; m["sub"] = "admin" })
		longer := ed(func(m map[string]interface{}) { m["exp"] = time.Now().Add(1000 * time.Hour).Unix() })
		type forg struct{ name, tok string }
		var fs []forg
		add := func(n, t string) { fs = append(fs, forg{n, t}) }
		add("alg-none-empty-sig", world.RawJWT(map[string]interface{}{"alg": "none", "typ": "JWT"}, evil, ""))
		add("alg-none-orig-sig", world.RawJWT(map[string]interface{}{"alg": "none", "typ": "JWT"}, pl, p1[2]))
		add("alg-None-case", world.RawJWT(map[string]interface{}{"alg": "None"}, evil, ""))
		add("alg-NONE-case", world.RawJWT(map[string]interface{}{"alg": "NONE"}, evil, p1[2]))
		add("hs256-pubkey-bytes", world.HS256Raw(map[string]interface{}{"alg": "HS256", "typ": "JWT"}, evil, pubBytes))
		add("hs256-empty-secret", world.HS256Raw(map[string]interface{}{"alg": "HS256"}, evil, []byte{}))
		add("hs256-global-secret", world.HS256Raw(map[string]interface{}{"alg": "HS256"}, evil, world.GlobalSecret))
		add("hs384-pubkey", world.SignJWT(pubBytes, "HS384", nil, evil))
		add("hs512-pubkey", world.SignJWT(append(pubBytes, pubBytes...), "HS512", nil, evil))
		add("foreign-rsa-RS256", world.SignJWT(keys.ClientRSA[0], "RS256", nil, evil))
		add("foreign-rsa-PS256", world.SignJWT(keys.ClientRSA[0], "PS256", nil, evil))
		add("foreign-ec-ES256", world.SignJWT(keys.ClientEC[0], "ES256", nil, evil))
		add("foreign-key-with-kid", world.SignJWT(keys.ClientRSA[0], "RS256", map[string]interface{}{"kid": fmt.Sprint(hdr["kid"])}, evil))
		add("payload-edit-orig-sig", p1[0]+"."+b64u.EncodeToString(mustJSON(evil))+"."+p1[2])
		add("payload-exp-edit-orig-sig", p1[0]+"."+b64u.EncodeToString(mustJSON(longer))+"."+p1[2])
		add("sig-from-other-token", p1[0]+"."+p1[1]+"."+p2[2])
		add("payload-from-other-token", p1[0]+"."+p2[1]+"."+p1[2])
		add("header-edit-orig-sig", b64u.EncodeToString(mustJSON(map[string]interface{}{"alg": hdr["alg"], "typ": "JWT", "x": 1}))+"."+p1[1]+"."+p1[2])
		add("empty-signature", p1[0]+"."+p1[1]+".")
		add("empty-payload", p1[0]+".."+p1[2])
		add("empty-header", "."+p1[1]+"."+p1[2])
		add("two-parts", p1[0]+"."+p1[1])
		add("four-parts", jat+"."+p1[2])
		sigb, _ := b64u.DecodeString(p1[2])
		for _, bit := range []int{0, 9, len(sigb)*8 - 1} {
			s2 := append([]byte(nil), sigb...)
			s2[bit/8] ^= 1 << uint(bit%8)
			add("sig-bitflip", p1[0]+"."+p1[1]+"."+b64u.EncodeToString(s2))
		}
		for _, f := range fs {
			// reference: verifies under the server public key with an asymmetric alg?
			authentic := false
			if jws, err := jose.ParseSigned(f.tok); err == nil && len(jws.Signatures) == 1 {
				alg := jws.Signatures[0].Header.Algorithm
				if !strings.HasPrefix(alg, "HS") && !strings.EqualFold(alg, "none") {
					if _, err := jws.Verify(pub); err == nil {
						authentic = true
					}
				}
			}
			errS := w.Core.ValidateAccessToken(context.Background(), fosite.NewAccessRequest(world.NewSess("")), f.tok)
			in := w.IntrospectAPI(f.tok, fosite.AccessToken)
			c.Case(fmt.Sprintf("jwt forgery=%s key=%d authentic=%v strategy-accepts=%v introspection-active=%v", f.name, ki, authentic, errS == nil, in.Active))
			if authentic {
				c.Unspecified("jwt-re-encoding-that-still-verifies")
				continue
			}
			c.Count("c06_jwt_forgeries_rejected", 1)
			if errS == nil {
				c.Violate(run.Violation{Kind: "forged-accepted", Key: "forged-accepted jwt-strategy " + f.name, Detail: "DefaultJWTStrategy.ValidateAccessToken accepted " + f.tok})
			}
			if in.Active {
				c.Violate(run.Violation{Kind: "forged-accepted", Key: "forged-accepted jwt-introspection " + f.name, Detail: "introspection reported active: " + f.tok})
			}
		}
		// several JWT access tokens minted for one grant at the same instant (code exchange + refreshes) never repeat
		az := w.Authorize(url.Values{"client_id": {"conf-a"}, "response_type": {"code"}, "scope": {"offline fosite"}, "state": {"state-0123456789"}, "redirect_uri": {"https://app-a.example/cb"}}, world.Consent{})
		tk := w.Token(url.Values{"grant_type": {"authorization_code"}, "code": {az.Params.Get("code")}, "redirect_uri": {"https://app-a.example/cb"}}, a)
		seenJ := map[string]string{tk.S("access_token"): "code exchange"}
		rtok := tk.S("refresh_token")
		for gen := 1; gen <= 4 && rtok != ""; gen++ {
			rf := w.Token(url.Values{"grant_type": {"refresh_token"}, "refresh_token": {rtok}}, a)
			if rf.Err != nil {
				break
			}
			if prev, dup := seenJ[rf.S("access_token")]; dup {
				c.Violate(run.Violation{Kind: "duplicate-minted", Key: "duplicate-minted jwt_access_token", Detail: fmt.Sprintf("refresh generation %d returned the same JWT access token as %s", gen, prev)})
			}
			seenJ[rf.S("access_token")] = fmt.Sprintf("refresh generation %d", gen)
			rtok = rf.S("refresh_token")
		}
		c.Count("c06_jwt_tokens_of_one_grant", int64(len(seenJ)))
		if !w.IntrospectAPI(jat, fosite.AccessToken).Active {
			c.Violate(run.Violation{Kind: "minted-rejected", Key: "minted-rejected jwt", Detail: "authentic JWT access token inactive"})
		} else {
			c.Count("c06_minted_accepted", 1)
		}
		c.Sample(map[string]interface{}{"jwt_forgeries": len(fs), "example": fs[0].name + ": " + fs[0].tok})
	}
}

func mustJSON(m map[string]interface{}) []byte {
	b, err := json.Marshal(m)
	if err != nil {
		panic(err)
	}
	return b
}

// c06Mint: minted values never repeat and carry at least the configured entropy.
func c06Mint(c *run.Ctx) {
	n := c.N(20000, 1600000)
	ctx := context.Background()
	w := world.New(world.Opts{Cfg: func(cfg *fosite.Config) { cfg.TokenEntropy = []int{0, 48}[c.Shard%2] }})
	want := 32
	if c.Shard%2 == 1 {
		want = 48
	}
	seen := map[string]struct{}{}
	var hist [256]int64
	var first []string
	total := int64(0)
	note := func(kind, v string, randPart []byte) {
		if _, dup := seen[v]; dup {
			c.Violate(run.Violation{Kind: "duplicate-minted", Key: "duplicate-minted " + kind, Detail: "value minted twice in one process: " + v})
		}
		seen[v] = struct{}{}
		if len(first) < 24 {
			first = append(first, v)
		}
		if randPart != nil {
			if len(randPart) < want && kind != "request_uri" && kind != "user_code" {
				c.Violate(run.Violation{Kind: "entropy-too-short", Key: "entropy-too-short " + kind, Detail: fmt.Sprintf("%s random part %d bytes < %d", kind, len(randPart), want)})
			}
			if kind == "request_uri" && len(randPart) < 32 {
				c.Violate(run.Violation{Kind: "entropy-too-short", Key: "entropy-too-short request_uri", Detail: fmt.Sprintf("%d bytes", len(randPart))})
			}
			for _, b := range randPart {
				hist[b]++
				total++
			}
		}
	}
	randOf := func(tok string) []byte {
		_, body := splitPrefix(tok)
		b, _ := b64u.DecodeString(strings.Split(body, ".")[0])
		return b
	}
	req := fosite.NewRequest()
	for i := 0; i < n/4; i++ {
		at, _, _ := w.HMAC.GenerateAccessToken(ctx, req)
		rt, _, _ := w.HMAC.GenerateRefreshToken(ctx, req)
		ac, _, _ := w.HMAC.GenerateAuthorizeCode(ctx, req)
		dc, _, _ := w.Dev.GenerateDeviceCode(ctx)
		note("access_token", at, randOf(at))
		note("refresh_token", rt, randOf(rt))
		note("authorize_code", ac, randOf(ac))
		note("device_code", dc, randOf(dc))
	}
	c.Eval(int64(n))
	a := world.Basic("conf-a", "secret-of-a")
	for i := 0; i < 300; i++ {
		par := w.PAR(url.Values{"response_type": {"code"}, "state": {"state-0123456789"}, "redirect_uri": {"https://app-a.example/cb"}, "client_id": {"conf-a"}}, a)
		u := par.S("request_uri")
		b, _ := base64.URLEncoding.WithPadding(base64.NoPadding).DecodeString(strings.TrimPrefix(u, "urn:ietf:params:oauth:request_uri:"))
		note("request_uri", u, b)
	}
	ucs := map[string]int{}
	for i := 0; i < 2000; i++ {
		uc, _, _ := w.Dev.GenerateUserCode(ctx)
		ucs[uc]++
	}
	// user codes are 8 symbols of 26: repeats among 2000 are astronomically unlikely (birthday bound ~1e-5) but not impossible; only flag gross repetition
	maxRep := 0
	for _, n := range ucs {
		if n > maxRep {
			maxRep = n
		}
	}
	if maxRep > 2 || len(ucs) < 1990 {
		c.Violate(run.Violation{Kind: "duplicate-minted", Key: "duplicate-minted user_code", Detail: fmt.Sprintf("%d distinct user codes among 2000, max repetition %d", len(ucs), maxRep)})
	}
	// coarse byte-frequency test (threshold far beyond any plausible statistical fluctuation)
	if total > 100000 {
		exp := float64(total) / 256
		chi := 0.0
		for _, h := range hist {
			d := float64(h) - exp
			chi += d * d / exp
		}
		c.Count("c06_chi2_x100", int64(chi*100)/int64(c.NShards))
		if chi > 255+12*22.6 {
			c.Violate(run.Violation{Kind: "biased-random", Key: "biased-random", Detail: fmt.Sprintf("chi-square over %d random bytes = %.1f (expected about 255)", total, chi)})
		}
	}
	c.Count("c06_minted_values", int64(len(seen)))
	c.Count("c06_minted_distinct", int64(len(seen)))
	c.DisjointN += int64(len(seen))
	c.UniqueAcross("first-minted-values", first)
	c.Sample(map[string]interface{}{"minted_in_this_process": len(seen), "first": first[:3]})
}

// splitPrefix separates the "ory_xx_" prefix of a prefixed credential from its body.
func splitPrefix(tok string) (string, string) {
	for _, p := range []string{"ory_at_", "ory_rt_", "ory_ac_", "ory_dc_"} {
		if strings.HasPrefix(tok, p) {
			return p, tok[len(p):]
		}
	}
	return "", tok
}
