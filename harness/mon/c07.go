package mon

import (
	"fmt"
	"math/rand"
	"net/url"
	"sort"
	"sync/atomic"
	"time"

	"github.com/ory/fosite"
	"github.com/ory/fosite/handler/oauth2"
	"github.com/ory/fosite/token/jwt"

	"fverif/run"
	"fverif/sim"
	"fverif/world"
)

func init() { Registry["C07"] = C07 }

type c07cfg struct {
	AT, RT, Code, ID, Dev, PAR time.Duration // 0 => server default
	JWT                        bool
	DB                         bool
}

func (k c07cfg) String() string {
	return fmt.Sprintf("at=%s rt=%s code=%s id=%s dev=%s par=%s jwt=%v db=%v", k.AT, k.RT, k.Code, k.ID, k.Dev, k.PAR, k.JWT, k.DB)
}

func c07Config(i int) c07cfg {
	return c07cfg{
		AT:   []time.Duration{0, 10 * time.Minute, 2 * time.Hour}[i%3],
		RT:   []time.Duration{0, 3 * time.Hour, -1, 45 * time.Minute}[(i/3)%4],
		Code: []time.Duration{0, 2 * time.Minute}[(i/12)%2],
		ID:   []time.Duration{0, 20 * time.Minute}[(i/24)%2],
		Dev:  []time.Duration{0, 3 * time.Minute}[(i/48)%2],
		PAR:  []time.Duration{0, time.Minute}[(i/96)%2],
		JWT:  (i/2)%2 == 1,
		DB:   (i/7)%3 == 0,
	}
}

func orDefault(d, def time.Duration) time.Duration {
	if d == 0 {
		return def
	}
	return d
}

// wantLife is the monitor's own reading of "per-client overrides take precedence exactly for their grant/token-type pair".
func wantLife(ov *fosite.ClientLifespanConfig, gt fosite.GrantType, tt fosite.TokenType, fallback time.Duration) time.Duration {
	if ov == nil {
		return fallback
	}
	var p *time.Duration
	switch string(gt) + "|" + string(tt) {
	case "authorization_code|access_token":
		p = ov.AuthorizationCodeGrantAccessTokenLifespan
	case "authorization_code|id_token":
		p = ov.AuthorizationCodeGrantIDTokenLifespan
	case "authorization_code|refresh_token":
		p = ov.AuthorizationCodeGrantRefreshTokenLifespan
	case "client_credentials|access_token":
		p = ov.ClientCredentialsGrantAccessTokenLifespan
	case "implicit|access_token":
		p = ov.ImplicitGrantAccessTokenLifespan
	case "implicit|id_token":
		p = ov.ImplicitGrantIDTokenLifespan
	case "urn:ietf:params:oauth:grant-type:jwt-bearer|access_token":
		p = ov.JwtBearerGrantAccessTokenLifespan
	case "password|access_token":
		p = ov.PasswordGrantAccessTokenLifespan
	case "password|refresh_token":
		p = ov.PasswordGrantRefreshTokenLifespan
	case "refresh_token|id_token":
		p = ov.RefreshTokenGrantIDTokenLifespan
	case "refresh_token|access_token":
		p = ov.RefreshTokenGrantAccessTokenLifespan
	case "refresh_token|refresh_token":
		p = ov.RefreshTokenGrantRefreshTokenLifespan
	}
	if p == nil {
		return fallback
	}
	return *p
}

func randOverrides(r *rand.Rand) *fosite.ClientLifespanConfig {
	d := func(j int) *time.Duration {
		if r.Intn(2) == 0 {
			return nil
		}
		x := time.Duration(11+3*j) * time.Minute
		return &x
	}
	return &fosite.ClientLifespanConfig{
		AuthorizationCodeGrantAccessTokenLifespan: d(0), AuthorizationCodeGrantIDTokenLifespan: d(1), AuthorizationCodeGrantRefreshTokenLifespan: d(2),
		ClientCredentialsGrantAccessTokenLifespan: d(3), ImplicitGrantAccessTokenLifespan: d(4), ImplicitGrantIDTokenLifespan: d(5),
		JwtBearerGrantAccessTokenLifespan: d(6), PasswordGrantAccessTokenLifespan: d(7), PasswordGrantRefreshTokenLifespan: d(8),
		RefreshTokenGrantIDTokenLifespan: d(9), RefreshTokenGrantAccessTokenLifespan: d(10), RefreshTokenGrantRefreshTokenLifespan: d(11),
	}
}

func c07World(k c07cfg, ov *fosite.ClientLifespanConfig) *world.World {
	w := world.New(world.Opts{JWTAccess: k.JWT, Mode: world.Mode{DB: k.DB, Hydrate: k.JWT}, Cfg: func(c *fosite.Config) {
		c.AccessTokenLifespan, c.RefreshTokenLifespan, c.AuthorizeCodeLifespan = k.AT, k.RT, k.Code
		c.IDTokenLifespan, c.DeviceAndUserCodeLifespan, c.PushedAuthorizeContextLifespan = k.ID, k.Dev, k.PAR
		c.GrantTypeJWTBearerMaxDuration = 10 * 365 * 24 * time.Hour
	}})
	keys := world.GetKeys()
	sc := []string{"openid", "offline", "offline_access", "fosite", "photos", "profile"}
	w.AddClient(world.ClientSpec{ID: "ls-rich", Kind: "rich", Secret: "secret-ls", AuthMethod: "client_secret_basic", RedirectURIs: []string{"https://ls.example/cb"},
		GrantTypes: world.AllGrants, ResponseTypes: world.AllResponseTypes, Scopes: sc, Audience: []string{"https://api.example/ls"}, ResponseModes: world.AllModes, Lifespans: ov})
	w.AddClient(world.ClientSpec{ID: "ls-plain", Kind: "lifespan", Secret: "secret-lp", RedirectURIs: []string{"https://lp.example/cb"},
		GrantTypes: world.AllGrants, ResponseTypes: world.AllResponseTypes, Scopes: sc, Lifespans: ov})
	w.AddClient(world.ClientSpec{ID: "pkj", Kind: "oidc", AuthMethod: "private_key_jwt", AuthSigAlg: "RS256", JWKS: world.PublicJWKS(nil, &keys.ClientRSA[0].PublicKey),
		RedirectURIs: []string{"https://pkj.example/cb"}, GrantTypes: world.AllGrants, ResponseTypes: world.AllResponseTypes, Scopes: sc})
	w.AddBearerKey("issuer-1", "svc-1", "bk1", &keys.ClientRSA[1].PublicKey, "RS256", []string{"fosite", "photos"})
	return w
}

func bearerAssertion(sub string, exp time.Time, mut func(map[string]interface{})) string {
	keys := world.GetKeys()
	now := time.Now()
	cl := map[string]interface{}{"iss": "issuer-1", "sub": sub, "aud": []string{world.TokenURL}, "exp": exp.Unix(), "iat": now.Unix(), "jti": fmt.Sprintf("jti-%d-%d", now.UnixNano(), atomic.AddInt64(&jtiCounter, 1))}
	if mut != nil {
		mut(cl)
	}
	return world.SignJWT(keys.ClientRSA[1], "RS256", map[string]interface{}{"kid": "bk1"}, cl)
}

func clientAssertion(client string, exp time.Time, mut func(map[string]interface{})) string {
	keys := world.GetKeys()
	cl := map[string]interface{}{"iss": client, "sub": client, "aud": world.TokenURL, "exp": exp.Unix(), "iat": time.Now().Unix(), "jti": fmt.Sprintf("cjti-%d-%d", time.Now().UnixNano(), atomic.AddInt64(&jtiCounter, 1))}
	if mut != nil {
		mut(cl)
	}
	return world.SignJWT(keys.ClientRSA[0], "RS256", map[string]interface{}{"kid": "k0"}, cl)
}

var c07Judged = []string{"alive:expired", "dead-unexpected", "advertised-lifetime", "rightful-refresh-refused", "rightful-redeem-refused", "payload"}

// C07 — nothing is honoured after it has expired.
func C07(c *run.Ctx) {
	n := c.N(96, 8000)
	c.Need("c07_accept_before_expiry", 1)
	c.Need("c07_refuse_after_expiry", 1)
	for i := 0; i < n; i++ {
		gi := i*c.NShards + c.Shard
		id := fmt.Sprintf("case-%d", gi)
		if c.Only != "" && c.Only != id {
			continue
		}
		r := caseRng(c, i)
		k := c07Config(gi + int(c.Seed)*5)
		ov := randOverrides(r)
		w := c07World(k, ov)
		if gi%8 == 5 {
			c07ShippedSessions(c, r, id, k, ov)
			continue
		}
		switch gi % 4 {
		case 0, 1:
			c07TokenWalk(c, r, id, k, ov, w)
		case 2:
			c07CodeDevicePAR(c, r, id, k, w)
		case 3:
			c07Assertions(c, r, id, k, w)
		}
	}
}

func c07TokenWalk(c *run.Ctx, r *rand.Rand, id string, k c07cfg, ov *fosite.ClientLifespanConfig, w *world.World) {
	s := sim.New(w, c, c07Judged...)
	s.CaseID = id
	s.BothHints = true
	s.LifeFn = func(client string, gt fosite.GrantType, tt fosite.TokenType, fallback time.Duration) time.Duration {
		if client == "ls-rich" || client == "ls-plain" {
			return wantLife(ov, gt, tt, fallback)
		}
		return fallback
	}
	sc := []string{"openid", "offline", "photos"}
	clients := []string{"ls-rich", "ls-plain", "conf-a"}
	type sched struct {
		t   *sim.Tok
		off time.Duration
	}
	var plan []sched
	for _, cl := range clients {
		// two of each refresh-capable origin: one refreshed 1s before expiry, one 1s after
		for rep := 0; rep < 2; rep++ {
			if g := s.Authorize(sim.AuthzReq{Client: cl, RT: "code", Scopes: sc}); g != nil {
				s.Redeem(g, sim.RedeemOpts{})
				if g.Latest != nil {
					plan = append(plan, sched{g.Latest, []time.Duration{-time.Second, time.Second}[rep]})
				}
			}
			if g := s.Password(cl, []string{"offline", "fosite"}); g != nil && g.Latest != nil {
				plan = append(plan, sched{g.Latest, []time.Duration{-time.Second, time.Second}[rep]})
			}
		}
		if g := s.Authorize(sim.AuthzReq{Client: cl, RT: pick(r, []string{"code token", "code id_token token"}), Scopes: sc}); g != nil {
			if r.Intn(2) == 0 {
				s.Advance(time.Duration(1+r.Intn(100)) * time.Second)
			}
			s.Redeem(g, sim.RedeemOpts{})
		}
		s.Authorize(sim.AuthzReq{Client: cl, RT: pick(r, []string{"token", "id_token token"}), Scopes: sc})
		s.ClientCredentials(cl, []string{"fosite"}, nil)
		s.DeviceGrant(cl, []string{"offline", "photos"})
		s.JWTBearer(cl, bearerAssertion("svc-1", time.Now().Add(time.Hour), nil), "svc-1", []string{"fosite"}, []string{world.TokenURL})
		if r.Intn(2) == 0 {
			s.Advance(time.Duration(1+r.Intn(300)) * time.Second)
		}
	}
	// one refresh right away so that refresh-grant lifetimes are in play from the start
	for _, g := range s.Grants {
		if g.Latest != nil && r.Intn(4) == 0 {
			inPlan := false
			for _, p := range plan {
				if p.t == g.Latest {
					inPlan = true
				}
			}
			if !inPlan {
				s.Refresh(g.Latest, "", nil)
			}
		}
	}
	s.Sweep("minted")
	done := map[*sim.Tok]bool{}
	for steps := 0; steps < 400; steps++ {
		now := time.Now()
		var next time.Time
		consider := func(t time.Time) {
			if t.After(now) && (next.IsZero() || t.Before(next)) {
				next = t
			}
		}
		for _, t := range s.Toks {
			if !t.Exp.IsZero() && t.Dead == "" && t.Fuzzy == "" {
				consider(t.Exp.Add(-time.Second))
				consider(t.Exp)
				consider(t.Exp.Add(time.Second))
			}
		}
		if next.IsZero() {
			break
		}
		s.Advance(next.Sub(now))
		now = time.Now()
		for _, p := range plan {
			if !done[p.t] && !p.t.Exp.IsZero() && now.Equal(p.t.Exp.Add(p.off)) && p.t.Dead == "" {
				done[p.t] = true
				s.Refresh(p.t, "", nil)
				if p.off < 0 {
					c.Count("c07_accept_before_expiry", 1)
				} else {
					c.Count("c07_refuse_after_expiry", 1)
				}
			}
		}
		s.Sweep("walk")
	}
	for _, d := range []time.Duration{24 * time.Hour, 400 * 24 * time.Hour} {
		s.Advance(d)
		s.Sweep("far")
	}
	if k.RT == -1 {
		s.Advance(10 * 365 * 24 * time.Hour)
		s.Sweep("ten-years")
		for _, t := range s.Toks {
			if t.Kind == "refresh" && t.Exp.IsZero() && t.Dead == "" && t.Fuzzy == "" {
				c.Count("c07_unlimited_refresh_tokens_alive_after_10y", 1)
			}
		}
	}
	c.Sample(map[string]interface{}{"kind": "token-walk", "config": k.String(), "history_prefix": s.Hist[:min(20, len(s.Hist))], "steps": len(s.Hist)})
}

// probe: a consuming presentation at a given offset from the expected expiry.
var c07Offsets = []time.Duration{-time.Second, 0, time.Second, 24 * time.Hour}

func c07Judge(c *run.Ctx, id, kind string, off time.Duration, accepted bool, detail string, hist []string) {
	c.Case(fmt.Sprintf("%s offset=%s accepted=%v", kind, off, accepted))
	switch {
	case off < 0:
		c.Count("c07_accept_before_expiry", 1)
		if !accepted {
			c.Violate(run.Violation{Kind: "refused-before-expiry", Key: "refused-before-expiry " + kind, Case: id, Detail: kind + " refused 1s before its expiry: " + detail, History: hist})
		}
	case off == 0:
		c.Unspecified("boundary-instant")
	default:
		c.Count("c07_refuse_after_expiry", 1)
		if accepted {
			c.Violate(run.Violation{Kind: "alive:expired", Key: "alive:expired " + kind, Case: id, Detail: fmt.Sprintf("%s honoured %s after its expiry: %s", kind, off, detail), History: hist})
		}
	}
}

func c07CodeDevicePAR(c *run.Ctx, r *rand.Rand, id string, k c07cfg, w *world.World) {
	codeLife := orDefault(k.Code, 15*time.Minute)
	devLife := orDefault(k.Dev, 10*time.Minute)
	parLife := orDefault(k.PAR, 5*time.Minute)
	cl := pick(r, []string{"conf-a", "ls-rich", "pub-c"})
	sp := w.Specs[cl]
	auth := world.Basic(cl, sp.Secret)
	if sp.Public {
		auth = world.Public(cl)
	}
	var hist []string
	for _, off := range c07Offsets {
		t0 := time.Now()
		// --- authorization code (plain and hybrid)
		rt := pick(r, []string{"code", "code id_token"})
		az := w.Authorize(url.Values{"client_id": {cl}, "response_type": {rt}, "scope": {"openid offline"}, "state": {"state-0123456789"}, "nonce": {"nonce-0123456789"}, "redirect_uri": {sp.RedirectURIs[0]}}, world.Consent{})
		code := az.Params.Get("code")
		// --- device
		dv := w.Device(url.Values{"client_id": {cl}, "scope": {"offline"}}, auth)
		dv2 := w.Device(url.Values{"client_id": {cl}, "scope": {"offline"}}, auth)
		if dv.Err == nil {
			if ei, ok := dv.Num("expires_in"); !ok || time.Duration(ei)*time.Second != devLife {
				c.Violate(run.Violation{Kind: "advertised-lifetime", Key: "advertised-lifetime device_code", Case: id, Detail: fmt.Sprintf("device expires_in=%v, configured %s", dv.JSON["expires_in"], devLife)})
			}
			_ = w.DeviceDecide(dv.S("user_code"), true, "user-d", nil, false)
		}
		// --- PAR
		par := w.PAR(url.Values{"response_type": {"code"}, "scope": {"offline"}, "state": {"state-0123456789"}, "redirect_uri": {sp.RedirectURIs[0]}, "client_id": {cl}}, auth)
		if par.Err == nil {
			if ei, ok := par.Num("expires_in"); !ok || time.Duration(ei)*time.Second != parLife {
				c.Violate(run.Violation{Kind: "advertised-lifetime", Key: "advertised-lifetime request_uri", Case: id, Detail: fmt.Sprintf("PAR expires_in=%v, configured %s", par.JSON["expires_in"], parLife)})
			}
		}
		type ev struct {
			at   time.Time
			what string
		}
		evs := []ev{{t0.Add(codeLife + off), "code"}, {t0.Add(devLife + off), "device"}, {t0.Add(devLife + off), "usercode"}, {t0.Add(parLife + off), "par"}}
		sort.SliceStable(evs, func(a, b int) bool { return evs[a].at.Before(evs[b].at) })
		for _, e := range evs {
			if d := e.at.Sub(time.Now()); d > 0 {
				world.Sleep(d)
			}
			hist = append(hist, fmt.Sprintf("t0+%s: present %s (offset %s)", time.Since(t0), e.what, off))
			switch e.what {
			case "code":
				if code == "" {
					continue
				}
				out := w.Token(url.Values{"grant_type": {"authorization_code"}, "code": {code}, "redirect_uri": {sp.RedirectURIs[0]}}, auth)
				c07Judge(c, id, "authorization_code", off, out.Err == nil, world.ErrDetail(out.Err), hist)
			case "device":
				if dv.Err != nil {
					continue
				}
				out := w.Token(url.Values{"grant_type": {"urn:ietf:params:oauth:grant-type:device_code"}, "device_code": {dv.S("device_code")}}, auth)
				c07Judge(c, id, "device_code", off, out.Err == nil, world.ErrDetail(out.Err), hist)
				if off > 0 && out.Err != nil && out.ErrName != "expired_token" {
					c.Violate(run.Violation{Kind: "expired-device-code-class", Key: "expired-device-code-class " + out.ErrName, Case: id, Detail: "approved but expired device code answered " + out.ErrName + " instead of expired_token", History: hist})
				}
			case "usercode":
				if dv2.Err != nil {
					continue
				}
				err := w.DeviceDecide(dv2.S("user_code"), true, "user-d", nil, false)
				c07Judge(c, id, "user_code", off, err == nil, fmt.Sprint(err), hist)
			case "par":
				if par.Err != nil {
					continue
				}
				az := w.Authorize(url.Values{"client_id": {cl}, "request_uri": {par.S("request_uri")}}, world.Consent{})
				c07Judge(c, id, "request_uri", off, az.Err == nil && az.Params.Get("code") != "", world.ErrDetail(az.Err), hist)
			}
		}
	}
	// --- the credential expires while the token request is being processed (between request validation and response)
	{
		t0 := time.Now()
		az := w.Authorize(url.Values{"client_id": {cl}, "response_type": {"code"}, "scope": {"openid offline"}, "state": {"state-0123456789"}, "nonce": {"nonce-0123456789"}, "redirect_uri": {sp.RedirectURIs[0]}}, world.Consent{})
		dv := w.Device(url.Values{"client_id": {cl}, "scope": {"offline"}}, auth)
		if dv.Err == nil {
			_ = w.DeviceDecide(dv.S("user_code"), true, "user-d", nil, false)
		}
		type mid struct {
			kind string
			life time.Duration
			form url.Values
		}
		mids := []mid{{"authorization_code", codeLife, url.Values{"grant_type": {"authorization_code"}, "code": {az.Params.Get("code")}, "redirect_uri": {sp.RedirectURIs[0]}}}}
		if dv.Err == nil {
			mids = append(mids, mid{"device_code", devLife, url.Values{"grant_type": {"urn:ietf:params:oauth:grant-type:device_code"}, "device_code": {dv.S("device_code")}}})
		}
		sort.SliceStable(mids, func(a, b int) bool { return mids[a].life < mids[b].life })
		for _, m := range mids {
			if m.kind == "authorization_code" && az.Params.Get("code") == "" {
				continue
			}
			if d := t0.Add(m.life - time.Second).Sub(time.Now()); d > 0 {
				world.Sleep(d)
			} else if d < 0 {
				continue
			}
			out := w.Token(m.form, auth, func(fosite.AccessRequester) { world.Sleep(2 * time.Second) })
			hist = append(hist, fmt.Sprintf("%s presented 1s before expiry, response built 1s after => %s", m.kind, world.ErrDetail(out.Err)))
			c.Case(fmt.Sprintf("%s expires-mid-request accepted=%v", m.kind, out.Err == nil))
			c.Count("c07_mid_request_expiry", 1)
			if out.Err == nil && out.S("access_token") != "" {
				c.Violate(run.Violation{Kind: "alive:expired", Key: "alive:expired " + m.kind + " mid-request", Case: id, Detail: m.kind + " yielded tokens although it had expired by the time the response was built", History: hist})
			}
		}
	}
	c.Sample(map[string]interface{}{"kind": "code/device/user-code/request_uri", "config": k.String(), "client": cl, "presentations": hist})
}

func c07Assertions(c *run.Ctx, r *rand.Rand, id string, k c07cfg, w *world.World) {
	var hist []string
	life := time.Duration(30+r.Intn(600)) * time.Second
	for _, off := range c07Offsets {
		t0 := time.Now()
		exp := t0.Add(life)
		ba := bearerAssertion("svc-1", exp, nil)
		ca := clientAssertion("pkj", exp, nil)
		// nbf: not yet valid until t0+life/2
		nbf := t0.Add(life / 2)
		baNbfEarly := bearerAssertion("svc-1", exp, func(m map[string]interface{}) { m["nbf"] = nbf.Unix() })
		out := w.Token(url.Values{"grant_type": {"urn:ietf:params:oauth:grant-type:jwt-bearer"}, "assertion": {baNbfEarly}, "scope": {"fosite"}}, world.Basic("conf-a", "secret-of-a"))
		c.Case(fmt.Sprintf("jwt-bearer before nbf accepted=%v", out.Err == nil))
		if out.Err == nil {
			c.Violate(run.Violation{Kind: "nbf-ignored", Key: "nbf-ignored jwt-bearer", Case: id, Detail: "assertion accepted before its nbf"})
		}
		world.Sleep(exp.Add(off).Sub(time.Now()))
		hist = append(hist, fmt.Sprintf("assertions with exp=t0+%s presented at offset %s", life, off))
		out = w.Token(url.Values{"grant_type": {"urn:ietf:params:oauth:grant-type:jwt-bearer"}, "assertion": {ba}, "scope": {"fosite"}}, world.Basic("conf-a", "secret-of-a"))
		c07Judge(c, id, "jwt_bearer_assertion", off, out.Err == nil, world.ErrDetail(out.Err), hist)
		out = w.Token(url.Values{"grant_type": {"client_credentials"}, "scope": {"fosite"}}, world.Auth{Mode: "none", Assertion: ca})
		c07Judge(c, id, "client_assertion", off, out.Err == nil, world.ErrDetail(out.Err), hist)
		// the same with a NumericDate that is not a whole number (legal JSON: exp = T - 0.5)
		frac := func(m map[string]interface{}) { m["exp"] = float64(exp.Unix()) - 0.5 }
		out = w.Token(url.Values{"grant_type": {"client_credentials"}, "scope": {"fosite"}}, world.Auth{Mode: "none", Assertion: clientAssertion("pkj", exp, frac)})
		if off != -time.Second { // one second before T the fractional expiry is half a second away: inside the boundary second
			c07Judge(c, id, "client_assertion(fractional exp)", off, out.Err == nil, world.ErrDetail(out.Err), hist)
		}
		out = w.Token(url.Values{"grant_type": {"urn:ietf:params:oauth:grant-type:jwt-bearer"}, "assertion": {bearerAssertion("svc-1", exp, frac)}, "scope": {"fosite"}}, world.Basic("conf-a", "secret-of-a"))
		if off != -time.Second {
			c07Judge(c, id, "jwt_bearer_assertion(fractional exp)", off, out.Err == nil, world.ErrDetail(out.Err), hist)
		}
		// a signed OpenID Connect request object is a JWT with an expiry of its own: out of its time it starts no authorization
		if sp := w.Specs["pkj"]; sp != nil && len(sp.RedirectURIs) > 0 {
			keys := world.GetKeys()
			for _, fr := range []bool{false, true} {
				cl := map[string]interface{}{"iss": "pkj", "aud": world.Issuer, "client_id": "pkj", "response_type": "code", "scope": "openid fosite", "state": "object-state-0123456789",
					"redirect_uri": sp.RedirectURIs[0], "nonce": "nonce-0123456789", "exp": exp.Unix()}
				kind := "request_object"
				if fr {
					cl["exp"], kind = float64(exp.Unix())-0.5, "request_object(fractional exp)"
				}
				obj := world.SignJWT(keys.ClientRSA[0], "RS256", map[string]interface{}{"kid": "k0"}, cl)
				az := w.Authorize(url.Values{"client_id": {"pkj"}, "response_type": {"code"}, "scope": {"openid"}, "state": {"query-state-0123456789"}, "nonce": {"nonce-0123456789"}, "redirect_uri": {sp.RedirectURIs[0]}, "request": {obj}}, world.Consent{})
				if !(fr && off == -time.Second) {
					c07Judge(c, id, kind, off, az.Err == nil && az.Params.Get("code") != "", world.ErrDetail(az.Err), hist)
				}
			}
		}
		if off > 0 {
			// expiry instants in 1970: exp = 0, and fractions of the first second
			for _, e := range []float64{0, 0.5, 0.999, 1} {
				e := e
				old := func(m map[string]interface{}) { m["exp"] = e }
				out = w.Token(url.Values{"grant_type": {"client_credentials"}, "scope": {"fosite"}}, world.Auth{Mode: "none", Assertion: clientAssertion("pkj", exp, old)})
				c07Judge(c, id, fmt.Sprintf("client_assertion(exp=%v)", e), off, out.Err == nil, world.ErrDetail(out.Err), hist)
			}
		}
	}
	c.Sample(map[string]interface{}{"kind": "assertions", "config": k.String(), "presentations": hist})
}

// c07ShippedSessions repeats the token walk with the session types fosite ships (fosite.DefaultSession for opaque,
// oauth2.JWTSession for JWT access tokens) instead of the harness's own session type: their Clone / expiry bookkeeping
// is what integrators run. No OpenID Connect flows (those need an openid.Session).
func c07ShippedSessions(c *run.Ctx, r *rand.Rand, id string, k c07cfg, ov *fosite.ClientLifespanConfig) {
	factory := func(sub string) fosite.Session {
		if k.JWT {
			return &oauth2.JWTSession{JWTClaims: &jwt.JWTClaims{Subject: sub, Extra: map[string]interface{}{}}, JWTHeader: &jwt.Headers{Extra: map[string]interface{}{}}, Subject: sub}
		}
		return &fosite.DefaultSession{Subject: sub}
	}
	w := world.New(world.Opts{JWTAccess: k.JWT, Mode: world.Mode{DB: k.DB, Hydrate: !k.JWT}, SessFactory: factory, Cfg: func(cfg *fosite.Config) {
		cfg.AccessTokenLifespan, cfg.RefreshTokenLifespan, cfg.AuthorizeCodeLifespan = k.AT, k.RT, k.Code
	}})
	sc := []string{"offline", "fosite"}
	w.AddClient(world.ClientSpec{ID: "ls-plain", Kind: "lifespan", Secret: "secret-lp", RedirectURIs: []string{"https://lp.example/cb"},
		GrantTypes: world.AllGrants, ResponseTypes: world.AllResponseTypes, Scopes: sc, Lifespans: ov})
	s := sim.New(w, c, c07Judged...)
	s.CaseID = id
	s.BothHints = true
	s.LifeFn = func(client string, gt fosite.GrantType, tt fosite.TokenType, fallback time.Duration) time.Duration {
		if client == "ls-plain" {
			return wantLife(ov, gt, tt, fallback)
		}
		return fallback
	}
	type sched struct {
		t   *sim.Tok
		off time.Duration
	}
	var plan []sched
	for _, cl := range []string{"ls-plain", "conf-a"} {
		for rep := 0; rep < 2; rep++ {
			if g := s.Authorize(sim.AuthzReq{Client: cl, RT: "code", Scopes: sc}); g != nil {
				s.Redeem(g, sim.RedeemOpts{})
				if g.Latest != nil {
					plan = append(plan, sched{g.Latest, []time.Duration{-time.Second, time.Second}[rep]})
				}
			}
			if g := s.Password(cl, sc); g != nil && g.Latest != nil {
				plan = append(plan, sched{g.Latest, []time.Duration{-time.Second, time.Second}[rep]})
			}
		}
		s.Authorize(sim.AuthzReq{Client: cl, RT: "token", Scopes: sc})
		if g := s.Authorize(sim.AuthzReq{Client: cl, RT: "code", Scopes: sc}); g != nil {
			s.Advance(time.Duration(1+r.Intn(60)) * time.Second)
			s.Redeem(g, sim.RedeemOpts{})
			if g.Latest != nil {
				s.Advance(time.Duration(1+r.Intn(60)) * time.Second)
				s.Refresh(g.Latest, "", nil)
			}
		}
		s.ClientCredentials(cl, []string{"fosite"}, nil)
	}
	s.Sweep("minted")
	// every planned refresh token is presented once in a request that is given up between the two phases of the token endpoint
	// (the caller hung up, a later handler failed): the token stays unused and keeps the expiry it was issued with
	s.Advance(7 * time.Second)
	w.Abandon = func(fosite.AccessRequester) bool { return true }
	for _, p := range plan {
		cl := p.t.Grant.Client
		w.Token(url.Values{"grant_type": {"refresh_token"}, "refresh_token": {p.t.Value}}, world.Basic(cl, w.Specs[cl].Secret))
		c.Count("c07_abandoned_refreshes", 1)
	}
	w.Abandon = nil
	s.Sweep("abandoned-refresh")
	done := map[*sim.Tok]bool{}
	for steps := 0; steps < 300; steps++ {
		now := time.Now()
		var next time.Time
		consider := func(t time.Time) {
			if t.After(now) && (next.IsZero() || t.Before(next)) {
				next = t
			}
		}
		for _, t := range s.Toks {
			if !t.Exp.IsZero() && t.Dead == "" && t.Fuzzy == "" {
				consider(t.Exp.Add(-time.Second))
				consider(t.Exp)
				consider(t.Exp.Add(time.Second))
			}
		}
		if next.IsZero() {
			break
		}
		s.Advance(next.Sub(now))
		now = time.Now()
		for _, p := range plan {
			if !done[p.t] && !p.t.Exp.IsZero() && now.Equal(p.t.Exp.Add(p.off)) && p.t.Dead == "" {
				done[p.t] = true
				s.Refresh(p.t, "", nil)
			}
		}
		s.Sweep("walk")
	}
	s.Advance(400 * 24 * time.Hour)
	s.Sweep("far")
	c.Count("c07_shipped_session_walks", 1)
	c.Sample(map[string]interface{}{"kind": "token-walk with fosite's own session types", "config": k.String(), "steps": len(s.Hist)})
}
