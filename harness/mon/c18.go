package mon

import (
	"context"
	"errors"
	"fmt"
	"net/url"
	"strings"
	"time"

	"github.com/ory/fosite"

	"fverif/run"
	"fverif/sim"
	"fverif/world"
)

func init() { Registry["C18"] = C18 }

type c18Res struct {
	ok      bool // the response delivered a credential (access/refresh/id token, code, request_uri ...)
	tokens  bool // access, refresh or ID token in the response
	errName string
	crashed bool
	detail  string
}

type c18State struct {
	w      *world.World
	s      *sim.Sim
	g      *sim.Grant // grant under test
	tok    *sim.Tok   // credential under test (refresh / revocation)
	extra  string     // device code, request_uri, ...
	by     *sim.Grant // bystander
	client string
}

type c18Flow struct {
	name    string
	refused bool                              // the fault-free request is (and must stay) refused; no fault may turn it into tokens
	token   bool                              // a token-endpoint (token-issuing) or revoking request
	prep    func(st *c18State) bool           // prepares the credential to exchange
	fire    func(st *c18State) c18Res         // the request under test (raw, not judged by the model)
	retry   func(st *c18State) (bool, string) // the legitimate retry through the model (returns success)
	replay  func(st *c18State)                // replay after a successful retry, judged by the model
}

func tokRes(out *world.Out) c18Res {
	has := out.S("access_token") != "" || out.S("refresh_token") != "" || out.S("id_token") != ""
	return c18Res{ok: out.Err == nil && has, tokens: has, errName: out.ErrName, crashed: out.Crashed, detail: world.ErrDetail(out.Err)}
}

func azRes(out *world.AuthzOut) c18Res {
	has := out.Params.Get("access_token") != "" || out.Params.Get("id_token") != ""
	return c18Res{ok: out.Err == nil && (has || out.Params.Get("code") != ""), tokens: has, errName: out.ErrName, crashed: out.Crashed, detail: world.ErrDetail(out.Err)}
}

const c18Verifier = "c18-verifier-abcdefghijklmnopqrstuvwxyz0123456789ABCDEFGH"

func c18Flows() []c18Flow {
	redeemForm := func(st *c18State) url.Values {
		f := url.Values{"grant_type": {"authorization_code"}, "code": {st.g.Code.Value}, "redirect_uri": {st.g.Code.Redirect}}
		if st.g.Code.Verifier != "" {
			f.Set("code_verifier", st.g.Code.Verifier)
		}
		return f
	}
	codePrep := func(rt string, scopes []string, pkce bool) func(st *c18State) bool {
		return func(st *c18State) bool {
			extra := url.Values{}
			if pkce {
				extra = url.Values{"code_challenge": {s256(c18Verifier)}, "code_challenge_method": {"S256"}, "_verifier": {c18Verifier}}
			}
			st.g = st.s.Authorize(sim.AuthzReq{Client: st.client, RT: rt, Scopes: scopes, Extra: extra})
			return st.g != nil && st.g.Code != nil
		}
	}
	codeFire := func(st *c18State) c18Res { return tokRes(st.w.Token(redeemForm(st), authFor(st.w, st.client))) }
	codeRetry := func(st *c18State) (bool, string) {
		out := st.s.Redeem(st.g, sim.RedeemOpts{})
		return out.Err == nil, world.ErrDetail(out.Err)
	}
	codeReplay := func(st *c18State) { st.s.Redeem(st.g, sim.RedeemOpts{}) }
	refreshPrep := func(st *c18State) bool {
		st.g = st.s.Authorize(sim.AuthzReq{Client: st.client, RT: "code", Scopes: []string{"openid", "offline", "fosite"}})
		if st.g == nil {
			return false
		}
		st.s.Redeem(st.g, sim.RedeemOpts{})
		st.tok = st.g.Latest
		return st.tok != nil
	}
	return []c18Flow{
		{name: "code", token: true, prep: codePrep("code", []string{"offline", "fosite"}, false), fire: codeFire, retry: codeRetry, replay: codeReplay},
		{name: "code+pkce", token: true, prep: codePrep("code", []string{"offline", "fosite"}, true), fire: codeFire, retry: codeRetry, replay: codeReplay},
		{name: "code+pkce-without-verifier", token: true, refused: true, prep: codePrep("code", []string{"offline", "fosite"}, true),
			fire: func(st *c18State) c18Res {
				f := redeemForm(st)
				f.Del("code_verifier")
				return tokRes(st.w.Token(f, authFor(st.w, st.client)))
			}},
		{name: "code+openid", token: true, prep: codePrep("code", []string{"openid", "offline", "fosite"}, false), fire: codeFire, retry: codeRetry, replay: codeReplay},
		{name: "hybrid-code+openid", token: true, prep: codePrep("code id_token", []string{"openid", "offline"}, false), fire: codeFire, retry: codeRetry, replay: codeReplay},
		{name: "refresh", token: true, prep: refreshPrep,
			fire: func(st *c18State) c18Res {
				return tokRes(st.w.Token(url.Values{"grant_type": {"refresh_token"}, "refresh_token": {st.tok.Value}}, authFor(st.w, st.client)))
			},
			retry: func(st *c18State) (bool, string) {
				o := st.s.Refresh(st.tok, "", nil)
				return o.Err == nil, world.ErrDetail(o.Err)
			},
			replay: func(st *c18State) { st.s.Refresh(st.tok, "", nil) }},
		{name: "refresh-reuse-handling", token: true, prep: func(st *c18State) bool {
			if !refreshPrep(st) {
				return false
			}
			st.s.Refresh(st.tok, "", nil) // st.tok is now a used token; presenting it triggers reuse handling
			return st.g.Latest != nil && st.g.Latest != st.tok
		},
			fire: func(st *c18State) c18Res {
				return tokRes(st.w.Token(url.Values{"grant_type": {"refresh_token"}, "refresh_token": {st.tok.Value}}, authFor(st.w, st.client)))
			}},
		{name: "code-replay-handling", token: true, prep: func(st *c18State) bool {
			st.g = st.s.Authorize(sim.AuthzReq{Client: st.client, RT: "code", Scopes: []string{"offline", "fosite"}})
			if st.g == nil {
				return false
			}
			st.s.Redeem(st.g, sim.RedeemOpts{})
			return st.g.Code.Used
		}, fire: codeFire},
		{name: "device", token: true, prep: func(st *c18State) bool {
			dv := st.w.Device(url.Values{"client_id": {st.client}, "scope": {"offline openid fosite"}}, authFor(st.w, st.client))
			if dv.Err != nil || st.w.DeviceDecide(dv.S("user_code"), true, "user-dev", nil, true) != nil {
				return false
			}
			st.extra = dv.S("device_code")
			return true
		},
			fire: func(st *c18State) c18Res {
				return tokRes(st.w.Token(url.Values{"grant_type": {"urn:ietf:params:oauth:grant-type:device_code"}, "device_code": {st.extra}}, authFor(st.w, st.client)))
			},
			retry: func(st *c18State) (bool, string) {
				o := st.w.Token(url.Values{"grant_type": {"urn:ietf:params:oauth:grant-type:device_code"}, "device_code": {st.extra}}, authFor(st.w, st.client))
				return o.Err == nil, world.ErrDetail(o.Err)
			},
			replay: func(st *c18State) {
				o := st.w.Token(url.Values{"grant_type": {"urn:ietf:params:oauth:grant-type:device_code"}, "device_code": {st.extra}}, authFor(st.w, st.client))
				if o.Err == nil {
					st.s.R.Violate(run.Violation{Kind: "device-code-twice", Key: "device-code-twice after-fault", Detail: "device code yielded tokens twice after a storage fault and retry", History: st.s.Hist})
				}
			}},
		{name: "client_credentials", token: true, prep: func(st *c18State) bool { return true },
			fire: func(st *c18State) c18Res {
				return tokRes(st.w.Token(url.Values{"grant_type": {"client_credentials"}, "scope": {"fosite"}}, authFor(st.w, "conf-a")))
			}},
		{name: "password", token: true, prep: func(st *c18State) bool { return true },
			fire: func(st *c18State) c18Res {
				return tokRes(st.w.Token(url.Values{"grant_type": {"password"}, "username": {world.UserName}, "password": {world.UserPass}, "scope": {"offline fosite"}}, authFor(st.w, "conf-a")))
			}},
		{name: "jwt-bearer", token: true, prep: func(st *c18State) bool {
			st.w.AddBearerKey("iss-18", "svc-18", "bk18", &world.GetKeys().ClientRSA[1].PublicKey, "RS256", []string{"fosite"})
			return true
		},
			fire: func(st *c18State) c18Res {
				now := time.Now()
				as := world.SignJWT(world.GetKeys().ClientRSA[1], "RS256", map[string]interface{}{"kid": "bk18"}, map[string]interface{}{"iss": "iss-18", "sub": "svc-18", "aud": []string{world.TokenURL}, "exp": now.Add(time.Hour).Unix(), "iat": now.Unix(), "jti": nextJTI("j18")})
				return tokRes(st.w.Token(url.Values{"grant_type": {"urn:ietf:params:oauth:grant-type:jwt-bearer"}, "assertion": {as}, "scope": {"fosite"}}, authFor(st.w, "conf-a")))
			}},
		{name: "implicit", prep: func(st *c18State) bool { return true },
			fire: func(st *c18State) c18Res {
				return azRes(st.w.Authorize(url.Values{"client_id": {st.client}, "response_type": {"id_token token"}, "scope": {"openid fosite"}, "state": {"state-0123456789"}, "nonce": {"nonce-0123456789"}, "redirect_uri": {st.w.Specs[st.client].RedirectURIs[0]}}, world.Consent{}))
			}},
		{name: "hybrid-authorize", prep: func(st *c18State) bool { return true },
			fire: func(st *c18State) c18Res {
				return azRes(st.w.Authorize(url.Values{"client_id": {st.client}, "response_type": {"code id_token token"}, "scope": {"openid fosite offline"}, "state": {"state-0123456789"}, "nonce": {"nonce-0123456789"}, "redirect_uri": {st.w.Specs[st.client].RedirectURIs[0]},
					"code_challenge": {s256(c18Verifier)}, "code_challenge_method": {"S256"}}, world.Consent{}))
			}},
		{name: "revocation", token: true, prep: refreshPrep,
			fire: func(st *c18State) c18Res {
				o := st.w.Revoke(url.Values{"token": {st.tok.Value}}, authFor(st.w, st.client))
				// what the caller sees decides: a refusal written as HTTP 200 is a success to the client
				return c18Res{ok: o.Err == nil || (!o.Crashed && o.Status/100 == 2), errName: o.ErrName, crashed: o.Crashed, detail: fmt.Sprintf("%s (HTTP %d)", world.ErrDetail(o.Err), o.Status)}
			}},
		{name: "par-push", prep: func(st *c18State) bool { return true },
			fire: func(st *c18State) c18Res {
				o := st.w.PAR(url.Values{"client_id": {st.client}, "response_type": {"code"}, "scope": {"fosite"}, "state": {"state-0123456789"}, "redirect_uri": {st.w.Specs[st.client].RedirectURIs[0]}}, authFor(st.w, st.client))
				return c18Res{ok: o.Err == nil && o.S("request_uri") != "", errName: o.ErrName, crashed: o.Crashed, detail: world.ErrDetail(o.Err)}
			}},
		{name: "par-use", prep: func(st *c18State) bool {
			o := st.w.PAR(url.Values{"client_id": {st.client}, "response_type": {"code"}, "scope": {"fosite"}, "state": {"state-0123456789"}, "redirect_uri": {st.w.Specs[st.client].RedirectURIs[0]}}, authFor(st.w, st.client))
			st.extra = o.S("request_uri")
			return o.Err == nil
		},
			fire: func(st *c18State) c18Res {
				return azRes(st.w.Authorize(url.Values{"client_id": {st.client}, "request_uri": {st.extra}}, world.Consent{}))
			}},
	}
}

type c18Fault struct {
	at   int
	kind string
}

// "canceled": the request context ends at that call (the caller hung up, a deadline passed) and the store reports it
var c18Kinds = []string{"generic", "not_found", "inactive", "serialization", "crash", "canceled"}

func faultErr(kind string) error {
	switch kind {
	case "not_found":
		return fosite.ErrNotFound
	case "inactive":
		return fosite.ErrInactiveToken
	case "serialization":
		return fosite.ErrSerializationFailure
	case "canceled":
		return context.Canceled
	}
	return errors.New("injected storage failure " + StorageCanary)
}

// StorageCanary is part of the text of every injected generic storage error: internal detail that no response may carry
// unless the operator enabled debug output (judged by C20).
const StorageCanary = "STORAGE-CANARY-5f1e pq: relation \"oauth2_access\" host=10.9.8.7"

// txAutomaton checks the begin/commit/rollback discipline of one request.
func txAutomaton(ev []string) string {
	open, failed, committed := false, false, false
	for i, e := range ev {
		switch {
		case e == "begin":
			if open {
				return fmt.Sprintf("begin while a transaction is open (event %d)", i)
			}
			open, failed, committed = true, false, false
		case e == "begin-nested":
			return "nested begin"
		case e == "write-fail" || e == "read-fail":
			failed = true
		case e == "write-ok":
		case strings.HasPrefix(e, "write-outside-tx"):
		case e == "commit-ok" || e == "commit-fail":
			if !open {
				return "commit without begin"
			}
			if failed {
				return "commit after a failed storage call inside the transaction"
			}
			if e == "commit-ok" {
				open, committed = false, true
			} else {
				open = false // the database discarded it; a following rollback is legal
				committed = false
			}
		case e == "commit-without-begin":
			return "commit without begin"
		case e == "rollback-ok" || e == "rollback-fail":
			if committed {
				return "rollback after a successful commit"
			}
			open = false
		case e == "rollback-without-begin":
			// legal only directly after a failed commit (handled above: open=false, committed=false) — the store reports it as without-begin
			if committed {
				return "rollback after a successful commit"
			}
		}
	}
	if open {
		return "transaction left open: begin without commit or rollback"
	}
	return ""
}

func C18(c *run.Ctx) {
	c.Need("c18_faults_injected", 1)
	c.Need("c18_retries_after_rollback_ok", 1)
	flows := c18Flows()
	idx := 0
	pairStride := uint64(1)
	if c.Quick() {
		pairStride = 25
	}
	c.Exhaustive = true
	for _, fl := range flows {
		for _, db := range []bool{true, false} {
			for _, jwt := range []bool{false, true} {
				// 1. record mode: learn the storage calls of the request
				mk := func() (*c18State, bool) {
					w := world.New(world.Opts{JWTAccess: jwt, Mode: world.Mode{DB: db}})
					st := &c18State{w: w, client: "conf-a"}
					st.s = sim.New(w, c, "code-twice", "refresh-twice", "alive:replay", "alive:reuse", "alive:rotate", "alive:revoke", "dead-unexpected", "rightful-redeem-refused", "rightful-refresh-refused", "replay-error-class", "reuse-error-class")
					st.by = st.s.Password("conf-b", []string{"offline", "fosite"})
					ok := fl.prep(st)
					st.s.Sweep("prepared")
					return st, ok
				}
				st0, ok := mk()
				if !ok {
					c.Inconcl("preparation failed for flow " + fl.name)
					continue
				}
				var recorded []world.Call
				st0.w.Store.Tap = func(cl world.Call) { recorded = append(recorded, cl) }
				res0 := fl.fire(st0)
				st0.w.Store.Tap = nil
				n := len(recorded)
				if !res0.ok && fl.name != "refresh-reuse-handling" && fl.name != "code-replay-handling" && !fl.refused {
					c.Inconcl(fmt.Sprintf("flow %s does not succeed without faults: %s", fl.name, res0.detail))
					continue
				}
				var methods []string
				for _, cl := range recorded {
					methods = append(methods, cl.Method)
				}
				c.Distinct[fmt.Sprintf("flow %s db=%v jwt=%v calls=%s", fl.name, db, jwt, strings.Join(methods, ","))]++
				// 2. single faults, exhaustive; pairs sampled (quick) / exhaustive (thorough)
				for k := 0; k < n; k++ {
					for _, kind := range c18Kinds {
						var seconds []c18Fault
						seconds = append(seconds, c18Fault{at: -1})
						if db {
							seconds = append(seconds, c18Fault{at: -2, kind: "rollback-fails"})
						}
						for j := 0; j < n; j++ {
							seconds = append(seconds, c18Fault{at: j, kind: "generic"})
						}
						for si, second := range seconds {
							idx++
							if !c.Mine(idx) {
								continue
							}
							if si > 0 && pairStride > 1 && mix(uint64(idx), uint64(c.Seed))%pairStride != 0 {
								if c.Quick() {
									c.Exhaustive = false
								}
								continue
							}
							c18One(c, fl, db, jwt, mk, recorded, c18Fault{k, kind}, second, idx)
						}
					}
				}
			}
		}
	}
	c.Sample(map[string]interface{}{"flows": len(flows), "kinds": c18Kinds})
}

func c18One(c *run.Ctx, fl c18Flow, db, jwt bool, mk func() (*c18State, bool), recorded []world.Call, f1, f2 c18Fault, idx int) {
	st, ok := mk()
	if !ok {
		return
	}
	w := st.w
	target := recorded[f1.at]
	hist := func() []string {
		return append(append([]string(nil), st.s.Hist...), fmt.Sprintf("FAULT flow=%s store-db=%v jwt=%v: %s at call %d (%s), second=%+v", fl.name, db, jwt, f1.kind, f1.at, target.Method, f2))
	}
	viol := func(kind, key, detail string) {
		c.Violate(run.Violation{Kind: kind, Key: kind + " " + key, Case: fmt.Sprint(idx), Detail: detail, History: hist()})
	}
	before := w.Store.Digest()
	n := 0
	injectedInTx := false
	injected := false
	w.Store.ResetCalls()
	w.Store.Pre = func(cl *world.Call) error {
		i := n
		n++
		if i == f1.at {
			injected = true
			injectedInTx = cl.Tx || cl.Method == "Commit"
			if f1.kind == "crash" {
				if cl.Tx || w.Store.TxIsOpen() {
					injectedInTx = true
				}
				panic(world.Crash{At: cl.Method})
			}
			if f1.kind == "canceled" {
				w.CancelOp(cl.Op)
			}
			return faultErr(f1.kind)
		}
		if f2.at == -2 && injected && cl.Method == "Rollback" {
			return errors.New("injected rollback failure")
		}
		return nil
	}
	res := fl.fire(st)
	w.Store.Pre = nil
	txEvents := append([]string(nil), w.Store.TxEvents...)
	c.Count("c18_faults_injected", 1)
	read := !target.Write && target.Method != "BeginTX" && target.Method != "Commit" && target.Method != "Rollback"
	// a read answered not-found / inactive is a legitimately missing record; a revoke-by-request-id that finds nothing is
	// tolerated by design ("nothing to revoke")
	// ("nothing to revoke"); so is a delete that finds nothing to delete (a row-counting store's answer, not a failure)
	benign := (f1.kind == "not_found" || f1.kind == "inactive") && (read || target.Method == "RevokeRefreshToken" || target.Method == "RevokeAccessToken" || (f1.kind == "not_found" && strings.HasPrefix(target.Method, "Delete")))
	c.Case(fmt.Sprintf("flow=%s db=%v fault=%s at=%s tx=%v second=%s -> delivered=%v err=%s", fl.name, db, f1.kind, target.Method, injectedInTx, map[bool]string{true: "none", false: f2.kind}[f2.at == -1], res.ok, res.errName))
	if !injected {
		return // the call sequence was shorter this time (cannot happen for deterministic flows)
	}
	// (1) no tokens although a storage call failed unexpectedly
	if benign && !(fl.refused && (f1.kind == "generic" || f1.kind == "serialization")) {
		c.Unspecified("read-answered-not-found-or-inactive")
	} else if !fl.token {
		// the statement's first sentence is about TOKEN requests; at the authorization / push endpoints a storage failure the
		// handler tolerates (for instance a failed collision probe before the write) is judged by the fail-closed clauses below
		if res.ok {
			c.Unspecified("non-token-endpoint-answered-despite-a-failed-storage-call")
		}
	} else if res.tokens || (res.ok && fl.name != "revocation") {
		viol("tokens-despite-storage-failure", fmt.Sprintf("flow=%s call=%s kind=%s", fl.name, target.Method, f1.kind), "the response carries a credential although a storage call failed: "+res.detail)
	}
	if fl.name == "revocation" && res.ok && !benign && target.Write && f1.kind == "generic" {
		viol("revocation-success-despite-failed-write", "call="+target.Method, "revocation answered success although "+target.Method+" failed")
	}
	// serialization conflicts are retryable (refresh flow pins this)
	if fl.name == "refresh" && f1.kind == "serialization" && !res.ok && res.errName == "invalid_grant" {
		viol("serialization-not-retryable", "call="+target.Method, "a serialization conflict was reported as invalid_grant: "+res.detail)
	}
	// (2) transaction discipline
	if db && f1.kind != "crash" {
		evs := txEvents
		if benign {
			// the tolerated not-found / inactive answer is not a failed write for the purpose of "no commit after a failed write"
			evs = nil
			for _, e := range txEvents {
				if e != "write-fail" && e != "read-fail" {
					evs = append(evs, e)
				}
			}
		}
		if why := txAutomaton(evs); why != "" {
			viol("transaction-discipline", fmt.Sprintf("flow=%s: %s", fl.name, why), fmt.Sprintf("events %v", txEvents))
		}
	}
	if w.Store.TxIsOpen() {
		w.Store.AbortOpenTx()
	}
	// (3) a failure inside the issuing transaction leaves every code and token record as before
	cleanRollback := db && injectedInTx && !benign && !res.ok
	if cleanRollback {
		d := world.DigestDiff(stripOutsideTx(before), stripOutsideTx(w.Store.Digest()))
		if len(d) > 0 {
			viol("state-changed-despite-rollback", fmt.Sprintf("flow=%s call=%s kind=%s", fl.name, target.Method, f1.kind), strings.Join(d, "\n"))
			cleanRollback = false
		}
	}
	// replay / reuse handling invalidates the family as far as it got: its tokens are no longer determined
	if fl.name == "code-replay-handling" || fl.name == "refresh-reuse-handling" || fl.name == "revocation" {
		if st.g != nil {
			for _, t := range st.g.Toks {
				if t.Dead == "" {
					t.Fuzzy = "invalidation-interrupted-by-fault"
				}
			}
		}
	}
	// (4) continuation
	if fl.retry == nil || res.ok {
		st.s.Sweep("after-fault")
		return
	}
	if !cleanRollback {
		// fail-closed: the grant under test is no longer determined; everything else must be untouched
		if st.g != nil {
			for _, t := range st.g.Toks {
				if t.Dead == "" {
					t.Fuzzy = "fault-outside-a-transaction"
				}
			}
		}
		st.s.Sweep("after-fault")
		if f2.at >= 0 {
			return
		}
		// whatever the retry does, a replay afterwards must not yield tokens a second time
		return
	}
	// retry by the rightful holder (optionally faulted again), then replay, then the sweep
	if f2.at >= 0 {
		m := 0
		w.Store.Pre = func(cl *world.Call) error {
			i := m
			m++
			if i == f2.at {
				return faultErr("generic")
			}
			return nil
		}
		r2 := fl.fire(st)
		w.Store.Pre = nil
		if w.Store.TxIsOpen() {
			w.Store.AbortOpenTx()
		}
		if r2.tokens {
			viol("tokens-despite-storage-failure", fmt.Sprintf("flow=%s second-fault", fl.name), "the faulted retry delivered tokens")
		}
		c.Count("c18_second_faults", 1)
		for _, t := range st.s.Toks {
			if st.g != nil && t.Grant == st.g && t.Dead == "" {
				t.Fuzzy = "second-fault"
			}
		}
		st.s.Sweep("after-second-fault")
		return
	}
	okRetry, detail := fl.retry(st)
	if !okRetry {
		viol("retry-after-rollback-refused", fmt.Sprintf("flow=%s call=%s kind=%s", fl.name, target.Method, f1.kind), "the transaction was rolled back but the legitimate retry is refused: "+detail)
		return
	}
	c.Count("c18_retries_after_rollback_ok", 1)
	st.s.Sweep("after-retry")
	if fl.replay != nil {
		fl.replay(st)
		st.s.Sweep("after-replay")
	}
	// the protections of the exchanged credential still hold: a PKCE-bound code is still PKCE-bound
	_ = jwt
}

// stripOutsideTx removes the tables the library writes outside the issuing transaction (PKCE and OpenID Connect sessions).
func stripOutsideTx(d string) string {
	var o []string
	for _, l := range strings.Split(d, "\n") {
		if strings.HasPrefix(l, "pkce ") || strings.HasPrefix(l, "oidc ") {
			continue
		}
		o = append(o, l)
	}
	return strings.Join(o, "\n")
}
