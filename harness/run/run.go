// Package run holds the per-shard bookkeeping every monitor writes into:
// evaluations, distinct non-trivial cases, counters, samples, violations.
package run

import (
	"encoding/json"
	"fmt"
	"math/rand"
	"os"
	"sort"
	"sync"
	"time"
)

type Violation struct {
	Prop    string   `json:"property"`
	Kind    string   `json:"kind"`
	Key     string   `json:"key"` // witness key matched against known_findings.txt
	Detail  string   `json:"detail"`
	History []string `json:"history,omitempty"`
	Case    string   `json:"case,omitempty"`
	Seed    int64    `json:"seed"`
	Shard   int      `json:"shard"`
}

type Ctx struct {
	Prop    string
	Tier    string
	Seed    int64
	Shard   int
	NShards int
	Rng     *rand.Rand
	Only    string // replay: run only this case id

	mu           sync.Mutex
	Evals        int64
	Distinct     map[string]int64
	DisjointN    int64 // distinct inputs counted inside this shard when shards partition the input space
	Counters     map[string]int64
	Unspec       map[string]int64
	Foreign      map[string]int64 // observations outside the judged kinds
	Samples      []interface{}
	Viols        []Violation
	Inconclusive []string
	Exhaustive   bool
	Notes        []string
	Unique       map[string][]string // values that must be unique across all shards (processes)
	start        time.Time
	maxViol      int
}

func New(prop, tier string, seed int64, shard, nshards int) *Ctx {
	return &Ctx{Prop: prop, Tier: tier, Seed: seed, Shard: shard, NShards: nshards,
		Rng:      rand.New(rand.NewSource(seed*1000003 + int64(shard)*7919 + 17)),
		Distinct: map[string]int64{}, Counters: map[string]int64{}, Unspec: map[string]int64{}, Foreign: map[string]int64{},
		start: time.Now(), maxViol: 40}
}

func (c *Ctx) Quick() bool { return c.Tier != "thorough" }

// N picks the quick or thorough size, divided over shards (at least 1).
func (c *Ctx) N(quick, thorough int) int {
	n := quick
	if !c.Quick() {
		n = thorough
	}
	per := n / c.NShards
	if c.Shard < n%c.NShards {
		per++
	}
	if per < 1 {
		per = 1
	}
	return per
}

// Mine reports whether the i-th element of an enumerated space belongs to this shard.
func (c *Ctx) Mine(i int) bool { return i%c.NShards == c.Shard }

func (c *Ctx) Eval(n int64) {
	c.mu.Lock()
	c.Evals += n
	c.mu.Unlock()
}

// Case records one oracle decision with its abstract triple.
func (c *Ctx) Case(triple string) {
	c.mu.Lock()
	c.Evals++
	c.Distinct[triple]++
	c.mu.Unlock()
}

func (c *Ctx) Count(k string, n int64) {
	c.mu.Lock()
	c.Counters[k] += n
	c.mu.Unlock()
}

func (c *Ctx) Unspecified(reason string) {
	c.mu.Lock()
	c.Unspec[reason]++
	c.mu.Unlock()
}

func (c *Ctx) ForeignObs(kind string) {
	c.mu.Lock()
	c.Foreign[kind]++
	c.mu.Unlock()
}

func (c *Ctx) Sample(s interface{}) {
	c.mu.Lock()
	if len(c.Samples) < 4 {
		c.Samples = append(c.Samples, s)
	}
	c.mu.Unlock()
}

func (c *Ctx) Violate(v Violation) {
	c.mu.Lock()
	defer c.mu.Unlock()
	v.Prop = c.Prop
	v.Seed = c.Seed
	v.Shard = c.Shard
	c.Counters["violations_raw"]++
	// keep at most a few per key
	n := 0
	for _, o := range c.Viols {
		if o.Key == v.Key {
			n++
		}
	}
	if n >= 3 || len(c.Viols) >= c.maxViol {
		return
	}
	c.Viols = append(c.Viols, v)
}

// UniqueAcross registers values that must not occur in any other shard's list of the same name.
func (c *Ctx) UniqueAcross(name string, vals []string) {
	c.mu.Lock()
	if c.Unique == nil {
		c.Unique = map[string][]string{}
	}
	c.Unique[name] = append(c.Unique[name], vals...)
	c.mu.Unlock()
}

func (c *Ctx) Inconcl(s string) {
	c.mu.Lock()
	c.Inconclusive = append(c.Inconclusive, s)
	c.mu.Unlock()
}

func (c *Ctx) Note(s string) {
	c.mu.Lock()
	c.Notes = append(c.Notes, s)
	c.mu.Unlock()
}

// Need registers a vacuity guard: counter k must reach at least n (checked by the aggregator over all shards).
func (c *Ctx) Need(k string, n int64) {
	c.mu.Lock()
	c.Counters["need:"+k] = n
	c.mu.Unlock()
}

type Result struct {
	Prop         string              `json:"property"`
	Tier         string              `json:"tier"`
	Seed         int64               `json:"seed"`
	Shard        int                 `json:"shard"`
	NShards      int                 `json:"nshards"`
	Evals        int64               `json:"evaluations"`
	Distinct     []string            `json:"distinct"`
	DisjointN    int64               `json:"disjoint_distinct"`
	Counters     map[string]int64    `json:"counters"`
	Unspec       map[string]int64    `json:"unspecified"`
	Foreign      map[string]int64    `json:"foreign_observations"`
	Samples      []interface{}       `json:"samples"`
	Viols        []Violation         `json:"violations"`
	Inconclusive []string            `json:"inconclusive"`
	Exhaustive   bool                `json:"exhaustive"`
	Notes        []string            `json:"notes"`
	Unique       map[string][]string `json:"unique_across_shards,omitempty"`
	WallS        float64             `json:"wall_s"`
	Done         bool                `json:"done"`
}

func (c *Ctx) Write(path string, done bool) error {
	c.mu.Lock()
	defer c.mu.Unlock()
	r := Result{Prop: c.Prop, Tier: c.Tier, Seed: c.Seed, Shard: c.Shard, NShards: c.NShards, Evals: c.Evals,
		DisjointN: c.DisjointN, Counters: c.Counters, Unspec: c.Unspec, Foreign: c.Foreign, Samples: c.Samples, Viols: c.Viols,
		Inconclusive: c.Inconclusive, Exhaustive: c.Exhaustive, Notes: c.Notes, Unique: c.Unique, WallS: time.Since(c.start).Seconds(), Done: done}
	for k := range c.Distinct {
		r.Distinct = append(r.Distinct, k)
	}
	sort.Strings(r.Distinct)
	b, err := json.MarshalIndent(r, "", " ")
	if err != nil {
		return err
	}
	tmp := path + ".tmp"
	if err := os.WriteFile(tmp, b, 0o644); err != nil {
		return err
	}
	return os.Rename(tmp, path)
}

// OpLog appends lines to an on-disk log before operations are executed, so
// that a fatal runtime error still leaves the witness.
type OpLog struct {
	f *os.File
}

func OpenOpLog(path string) *OpLog {
	if path == "" {
		return &OpLog{}
	}
	f, err := os.Create(path)
	if err != nil {
		return &OpLog{}
	}
	return &OpLog{f: f}
}

func (l *OpLog) Log(format string, a ...interface{}) {
	if l == nil || l.f == nil {
		return
	}
	fmt.Fprintf(l.f, format+"\n", a...)
}

func (l *OpLog) Close() {
	if l != nil && l.f != nil {
		l.f.Close()
	}
}
