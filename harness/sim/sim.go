// Package sim drives a world through generated histories while a reference
// model of every credential the server ever issued predicts, three-valued,
// what each next operation must do. The model is written from the property
// statements, not from the handlers.
package sim

import (
	"encoding/base64"
	"encoding/json"
	"fmt"
	"net/url"
	"sort"
	"strings"
	"time"

	"github.com/ory/fosite"

	"fverif/run"
	"fverif/world"
)

type Verdict int

const (
	Unspec Verdict = iota
	MustActive
	MustInactive
)

type Tok struct {
	Kind     string // "access" | "refresh"
	Value    string
	Grant    *Grant
	Gen      int
	Issued   time.Time
	Exp      time.Time // zero: unlimited
	Dead     string    // "", "rotate", "revoke", "replay", "reuse"
	DeadOp   int
	Fuzzy    string // non-empty: the statements do not determine this token's state any more (reason)
	Implicit bool   // delivered by the authorization endpoint
	Peer     *Tok   // token issued alongside
	Advert   int64  // advertised expires_in (access tokens)
	n        int
}

func (t *Tok) Name() string {
	return fmt.Sprintf("g%d.%s%d%s", t.Grant.ID, t.Kind[:1], t.Gen, map[bool]string{true: "i", false: ""}[t.Implicit])
}

type Code struct {
	Value    string
	Grant    *Grant
	Redirect string // redirect_uri sent at authorization ("" if absent)
	Issued   time.Time
	Exp      time.Time
	Used     bool
	Verifier string // PKCE verifier to present ("" none)
}

type Grant struct {
	ID      int
	Origin  string // code | hybrid | implicit | password | client_credentials | device | jwt_bearer
	RT      string // response type for authorization-endpoint origins
	Client  string
	Subject string
	Scopes  []string
	Aud     []string
	Code    *Code
	Toks    []*Tok // all tokens of this grant
	Latest  *Tok   // latest refresh token (nil if none)
	LatestA *Tok   // latest token-endpoint access token
	Killed  string
	IDToks  []string
	// what the authorization request asked for, as fosite parsed it at consent time (nil for token-endpoint origins)
	ReqScopes, ReqAud []string
	HasReq            bool
}

func (g *Grant) endpointToks() []*Tok {
	var o []*Tok
	for _, t := range g.Toks {
		if !t.Implicit {
			o = append(o, t)
		}
	}
	return o
}

type Sim struct {
	// AuthFor overrides how the named client presents itself (default: by its registered method)
	AuthFor map[string]world.Auth
	W       *world.World
	R       *run.Ctx
	Judged  map[string]bool // violation kinds this monitor judges; nil = all
	Prop    string
	CaseID  string
	Grants  []*Grant
	Toks    []*Tok
	Hist    []string
	opN     int
	Now     func() time.Time
	// SweepHints: introspect with both hints during sweeps
	BothHints bool
	Cfg       Cfg
	// LifeFn, if set, is the monitor's own expectation of the effective lifetime (C07); default: the library's helper.
	LifeFn func(client string, gt fosite.GrantType, tt fosite.TokenType, fallback time.Duration) time.Duration
}

type Cfg struct {
	CodeLife time.Duration
	ATLife   time.Duration
	RTLife   time.Duration // -1 unlimited
	// RefreshScopes as configured (nil => fosite default offline/offline_access)
	RefreshScopes []string
}

func New(w *world.World, r *run.Ctx, judged ...string) *Sim {
	s := &Sim{W: w, R: r, Now: time.Now, Prop: r.Prop}
	if len(judged) > 0 {
		s.Judged = map[string]bool{}
		for _, k := range judged {
			s.Judged[k] = true
		}
	}
	c := w.Cfg
	s.Cfg = Cfg{CodeLife: c.GetAuthorizeCodeLifespan(nil), ATLife: c.GetAccessTokenLifespan(nil), RTLife: c.GetRefreshTokenLifespan(nil), RefreshScopes: c.GetRefreshTokenScopes(nil)}
	return s
}

func (s *Sim) log(format string, a ...interface{}) {
	s.opN++
	s.Hist = append(s.Hist, fmt.Sprintf("%03d t=%s ", s.opN, s.Now().UTC().Format("15:04:05")+fmt.Sprintf("+%dd", int(s.Now().Sub(time.Date(2009, 11, 10, 23, 0, 0, 0, time.UTC)).Hours()/24)))+fmt.Sprintf(format, a...))
}

func (s *Sim) note(format string, a ...interface{}) {
	if len(s.Hist) > 0 {
		s.Hist[len(s.Hist)-1] += " => " + fmt.Sprintf(format, a...)
	}
}

// viol records a violation of kind k (judged or foreign).
func (s *Sim) viol(kind, key, detail string) {
	if s.Judged != nil && !s.Judged[kind] || s.Judged == nil && strings.HasPrefix(kind, "revoke-") {
		// revocation-endpoint kinds belong to C08 alone; a monitor that judges "everything the sweep sees" does not own them
		s.R.ForeignObs(kind + " " + key)
		return
	}
	h := s.Hist
	if len(h) > 60 {
		h = append([]string{"..."}, h[len(h)-60:]...)
	}
	s.R.Violate(run.Violation{Kind: kind, Key: kind + " " + key, Detail: detail, Case: s.CaseID, History: append([]string(nil), h...)})
}

// Expect returns what the statements demand of t at the current instant.
func (s *Sim) Expect(t *Tok) (Verdict, string) {
	if t.Dead != "" {
		return MustInactive, t.Dead
	}
	if t.Fuzzy != "" {
		return Unspec, t.Fuzzy
	}
	now := s.Now()
	if !t.Exp.IsZero() {
		if now.After(t.Exp) {
			return MustInactive, "expired"
		}
		if now.Equal(t.Exp) {
			return Unspec, "boundary-instant"
		}
	}
	return MustActive, ""
}

func (s *Sim) auth(client string) world.Auth {
	if a, ok := s.AuthFor[client]; ok {
		return a
	}
	sp := s.W.Specs[client]
	if sp == nil {
		return world.Public(client)
	}
	if sp.Public {
		return world.Public(client)
	}
	if sp.AuthMethod == "client_secret_post" {
		return world.Post(client, sp.Secret)
	}
	return world.Basic(client, sp.Secret)
}

// originKey abstracts a token for witness keys and distinct triples.
func originKey(t *Tok) string {
	o := t.Grant.Origin
	if t.Implicit {
		o += "-implicit"
	}
	return o + "/" + t.Kind
}

// ---- sweep ------------------------------------------------------------------

// Sweep introspects every token ever received and compares with the model.
func (s *Sim) Sweep(after string) {
	for _, t := range s.Toks {
		v, why := s.Expect(t)
		hints := []fosite.TokenUse{fosite.TokenUse(t.Kind + "_token")}
		if s.BothHints {
			if t.Kind == "access" {
				hints = append(hints, fosite.RefreshToken)
			} else {
				hints = append(hints, fosite.AccessToken)
			}
		}
		for _, h := range hints {
			in := s.W.IntrospectAPI(t.Value, h)
			s.R.Count("introspections", 1)
			state := "live"
			if v == MustInactive {
				state = "dead:" + why
			} else if v == Unspec {
				state = "unspec:" + why
			}
			s.R.Case(fmt.Sprintf("sweep %s %s active=%v", originKey(t), state, in.Active))
			switch v {
			case Unspec:
				s.R.Unspecified(why)
			case MustActive:
				if !in.Active {
					s.viol("dead-unexpected", fmt.Sprintf("%s after=%s", originKey(t), after),
						fmt.Sprintf("token %s should be active (issued %s, exp %s) but introspection says inactive after %s: %s", t.Name(), t.Issued.Format(time.RFC3339), t.Exp.Format(time.RFC3339), after, world.ErrDetail(in.Err)))
					// do not repeat for ever
					t.Fuzzy = "reported"
				} else {
					s.checkPayload(t, in)
				}
			case MustInactive:
				if in.Active {
					s.viol("alive:"+why, originKey(t),
						fmt.Sprintf("token %s must be inactive (%s, op %d; exp %s, now %s) but introspection reports it active as %s", t.Name(), why, t.DeadOp, t.Exp.Format(time.RFC3339), s.Now().Format(time.RFC3339), in.Use))
					t.Fuzzy = "reported"
					t.Dead = ""
				}
			}
		}
	}
}

func sameSet(a, b []string) bool {
	x := append([]string(nil), a...)
	y := append([]string(nil), b...)
	sort.Strings(x)
	sort.Strings(y)
	return strings.Join(x, " ") == strings.Join(y, " ")
}

func (s *Sim) checkPayload(t *Tok, in world.Intro) {
	g := t.Grant
	var bad []string
	if string(in.Use) != t.Kind+"_token" {
		bad = append(bad, fmt.Sprintf("kind %s != %s", in.Use, t.Kind))
	}
	if in.AR.GetClient().GetID() != g.Client {
		bad = append(bad, fmt.Sprintf("client %s != %s", in.AR.GetClient().GetID(), g.Client))
	}
	if !sameSet(in.AR.GetGrantedScopes(), g.Scopes) {
		bad = append(bad, fmt.Sprintf("scopes %v != %v", in.AR.GetGrantedScopes(), g.Scopes))
	}
	if !sameSet(in.AR.GetGrantedAudience(), g.Aud) {
		bad = append(bad, fmt.Sprintf("aud %v != %v", in.AR.GetGrantedAudience(), g.Aud))
	}
	if g.Subject != "*" && in.AR.GetSession().GetSubject() != g.Subject {
		bad = append(bad, fmt.Sprintf("sub %q != %q", in.AR.GetSession().GetSubject(), g.Subject))
	}
	if len(bad) > 0 {
		s.viol("payload", originKey(t), fmt.Sprintf("token %s: %s", t.Name(), strings.Join(bad, "; ")))
	}
}

// ---- token bookkeeping ------------------------------------------------------

func (s *Sim) addTok(g *Grant, kind, val string, gen int, exp time.Time, implicit bool) *Tok {
	t := &Tok{Kind: kind, Value: val, Grant: g, Gen: gen, Issued: s.Now(), Exp: exp, Implicit: implicit, n: len(s.Toks)}
	g.Toks = append(g.Toks, t)
	s.Toks = append(s.Toks, t)
	return t
}

func (s *Sim) kill(t *Tok, why string) {
	if t.Dead == "" {
		t.Dead = why
		t.DeadOp = s.opN
	}
}

func (s *Sim) killFamily(g *Grant, why string) {
	g.Killed = why
	for _, t := range g.Toks {
		if t.Implicit {
			if t.Dead == "" && t.Fuzzy == "" {
				t.Fuzzy = "implicit-token-after-" + why
			}
			continue
		}
		s.kill(t, why)
	}
}

func (s *Sim) fuzzImplicit(g *Grant, why string) {
	for _, t := range g.Toks {
		if t.Implicit && t.Dead == "" && t.Fuzzy == "" {
			t.Fuzzy = "implicit-token-after-" + why
		}
	}
}

func (s *Sim) life(client string, gt fosite.GrantType, tt fosite.TokenType, fallback time.Duration) time.Duration {
	if s.LifeFn != nil {
		return s.LifeFn(client, gt, tt, fallback)
	}
	return fosite.GetEffectiveLifespan(s.W.Client(client), gt, tt, fallback)
}

// MayIssueRefresh is the statement's rule for "a refresh token is only ever issued when ...".
func (s *Sim) MayIssueRefresh(g *Grant, viaCodeOrDevice bool) bool {
	if len(s.Cfg.RefreshScopes) > 0 {
		ok := false
		for _, rs := range s.Cfg.RefreshScopes {
			for _, sc := range g.Scopes {
				if sc == rs {
					ok = true
				}
			}
		}
		if !ok {
			return false
		}
	}
	if viaCodeOrDevice && !s.W.Client(g.Client).GetGrantTypes().Has("refresh_token") {
		return false
	}
	return true
}

// takePair records the tokens of a successful token-endpoint response.
func (s *Sim) takePair(g *Grant, out *world.Out, gt fosite.GrantType, viaCodeOrDevice bool) {
	gen := 0
	if g.LatestA != nil {
		gen = g.LatestA.Gen + 1
	}
	now := s.Now()
	at := out.S("access_token")
	atLife := s.life(g.Client, gt, fosite.AccessToken, s.Cfg.ATLife)
	a := s.addTok(g, "access", at, gen, now.Add(atLife), false)
	if f, ok := out.Num("expires_in"); ok {
		a.Advert = int64(f)
		if int64(atLife/time.Second) != a.Advert {
			s.viol("advertised-lifetime", g.Origin+"/access", fmt.Sprintf("expires_in=%d but the effective lifetime is %s", a.Advert, atLife))
		}
	}
	g.LatestA = a
	s.checkJWT(a)
	if rt := out.S("refresh_token"); rt != "" {
		rtLife := s.life(g.Client, gt, fosite.RefreshToken, s.Cfg.RTLife)
		var exp time.Time
		if rtLife > -1 {
			exp = now.Add(rtLife)
		}
		r := s.addTok(g, "refresh", rt, gen, exp, false)
		r.Peer, a.Peer = a, r
		g.Latest = r
		if !s.MayIssueRefresh(g, viaCodeOrDevice) {
			s.viol("refresh-issued-against-rule", g.Origin, fmt.Sprintf("grant scopes %v, refresh scopes %v, client grant types %v", g.Scopes, s.Cfg.RefreshScopes, s.W.Client(g.Client).GetGrantTypes()))
		}
		s.R.Count("refresh_tokens_issued", 1)
	} else {
		if s.MayIssueRefresh(g, viaCodeOrDevice) && gt != fosite.GrantTypeClientCredentials && gt != fosite.GrantTypeJWTBearer {
			s.R.Unspecified("no-refresh-token-although-allowed")
		}
	}
	if it := out.S("id_token"); it != "" {
		g.IDToks = append(g.IDToks, it)
	}
	s.R.Count("token_responses", 1)
}

// ---- operations ---------------------------------------------------------------

type AuthzReq struct {
	Client   string
	RT       string // response_type
	Scopes   []string
	Aud      []string
	Redirect string // "" => registered[0] sent; "-" => omitted
	Subject  string
	Extra    url.Values
	Granted  []string // nil => everything requested is granted
	GrantAud []string // nil => every requested audience is granted
}

// Authorize runs the authorization endpoint with consent and records codes / implicit tokens.
func (s *Sim) Authorize(a AuthzReq) *Grant {
	sp := s.W.Specs[a.Client]
	q := url.Values{"client_id": {a.Client}, "response_type": {a.RT}, "state": {"state-0123456789"}, "nonce": {"nonce-0123456789"}}
	if len(a.Scopes) > 0 {
		q.Set("scope", strings.Join(a.Scopes, " "))
	}
	for _, au := range a.Aud {
		q.Add("audience", au)
	}
	red := a.Redirect
	if red == "" {
		red = sp.RedirectURIs[0]
	}
	if red != "-" {
		q.Set("redirect_uri", red)
	} else {
		red = ""
	}
	for k, v := range a.Extra {
		if !strings.HasPrefix(k, "_") { // "_"-keys are notes for the harness (e.g. the PKCE verifier), never sent
			q[k] = v
		}
	}
	sub := a.Subject
	if sub == "" {
		sub = "user-1"
	}
	s.log("authorize client=%s rt=%q scope=%v aud=%v", a.Client, a.RT, a.Scopes, a.Aud)
	cons := world.Consent{Subject: sub}
	gs, ga := a.Scopes, a.Aud
	if a.Granted != nil {
		cons.Scopes = a.Granted
		gs = a.Granted
	}
	if a.GrantAud != nil {
		cons.NoAud = true
		ga = a.GrantAud
		aud := a.GrantAud
		cons.ReqMut = func(ar fosite.AuthorizeRequester) {
			for _, x := range aud {
				ar.GrantAudience(x)
			}
		}
	}
	var reqScopes, reqAud []string
	inner := cons.ReqMut
	cons.ReqMut = func(ar fosite.AuthorizeRequester) {
		reqScopes = append([]string{}, ar.GetRequestedScopes()...)
		reqAud = append([]string{}, ar.GetRequestedAudience()...)
		if inner != nil {
			inner(ar)
		}
	}
	out := s.W.Authorize(q, cons)
	if out.Err != nil {
		s.note("error %s", world.ErrDetail(out.Err))
		s.R.Count("authorize_err:"+out.ErrName, 1)
		return nil
	}
	g := &Grant{ID: len(s.Grants), Origin: "code", RT: a.RT, Client: a.Client, Subject: sub, Scopes: gs, Aud: ga, ReqScopes: reqScopes, ReqAud: reqAud, HasReq: reqScopes != nil}
	if strings.Contains(a.RT, " ") {
		g.Origin = "hybrid"
	} else if a.RT != "code" {
		g.Origin = "implicit"
	}
	s.Grants = append(s.Grants, g)
	now := s.Now()
	if c := out.Params.Get("code"); c != "" {
		g.Code = &Code{Value: c, Grant: g, Redirect: red, Issued: now, Exp: now.Add(s.Cfg.CodeLife)}
		if v := a.Extra.Get("_verifier"); v != "" {
			g.Code.Verifier = v
		}
	}
	if at := out.Params.Get("access_token"); at != "" {
		life := s.life(a.Client, fosite.GrantTypeImplicit, fosite.AccessToken, s.Cfg.ATLife)
		t := s.addTok(g, "access", at, 0, now.Add(life), true)
		if ei := out.Params.Get("expires_in"); ei != "" {
			fmt.Sscan(ei, &t.Advert)
			if t.Advert != int64(life/time.Second) {
				s.viol("advertised-lifetime", g.Origin+"-implicit/access", fmt.Sprintf("expires_in=%d but the effective lifetime is %s", t.Advert, life))
			}
		}
	}
	if it := out.Params.Get("id_token"); it != "" {
		g.IDToks = append(g.IDToks, it)
	}
	s.note("ok grant g%d code=%v implicit_at=%v id_token=%v", g.ID, g.Code != nil, out.Params.Get("access_token") != "", out.Params.Get("id_token") != "")
	s.R.Count("authorize_ok:"+g.Origin, 1)
	return g
}

// RedeemOpts vary a redemption attempt.
type RedeemOpts struct {
	As       string      // presenting client ("" = owner)
	Redirect *string     // nil = the one sent at authorization
	Extra    url.Values  // smuggled parameters
	Auth     *world.Auth // explicit credentials (As still names who is really authenticating)
	// Equivalent: the presented redirect_uri differs as a string but is URL-equivalent to the stored one (outcome unspecified)
	Equivalent bool
}

// Redeem presents a code at the token endpoint and judges the result.
func (s *Sim) Redeem(g *Grant, o RedeemOpts) *world.Out {
	c := g.Code
	as := o.As
	if as == "" {
		as = g.Client
	}
	form := url.Values{"grant_type": {"authorization_code"}, "code": {c.Value}}
	red := c.Redirect
	if o.Redirect != nil {
		red = *o.Redirect
	}
	if red != "" {
		form.Set("redirect_uri", red)
	}
	if c.Verifier != "" {
		form.Set("code_verifier", c.Verifier)
	}
	for k, v := range o.Extra {
		form[k] = v
	}
	now := s.Now()
	foreign := as != g.Client
	wrongRedirect := c.Redirect != "" && red != c.Redirect
	state := "fresh"
	switch {
	case c.Used:
		state = "used"
	case now.After(c.Exp):
		state = "expired"
	case now.Equal(c.Exp):
		state = "boundary"
	}
	s.log("redeem g%d as=%s state=%s foreign=%v wrongRedirect=%v", g.ID, as, state, foreign, wrongRedirect)
	before := s.snapshotOthers(g)
	au := s.auth(as)
	if o.Auth != nil {
		au = *o.Auth
	}
	s.W.Store.ResetCalls()
	s.W.Store.Record = true
	var capt reqCapture
	out := s.W.Token(form, au, capt.mut())
	s.W.Store.Record = false
	calls := s.W.Store.TakeCalls()
	ok := out.Err == nil && out.S("access_token") != ""
	if ok {
		s.checkRequested(g, &capt, "authorization_code")
	}
	if o.Equivalent && !c.Used && !foreign {
		s.note("equivalent redirect_uri presentation: ok=%v %s", ok, out.ErrName)
		s.R.Unspecified("equivalent-but-not-identical-redirect-uri")
		s.R.Case(fmt.Sprintf("redeem equivalent-redirect ok=%v err=%s", ok, out.ErrName))
		if ok {
			c.Used = true
			s.takePair(g, out, fosite.GrantTypeAuthorizationCode, true)
		}
		return out
	}
	s.note("%s", map[bool]string{true: "tokens", false: "refused " + world.ErrDetail(out.Err)}[ok])
	s.R.Case(fmt.Sprintf("redeem %s origin=%s foreign=%v wrongRedirect=%v ok=%v err=%s", state, g.Origin, foreign, wrongRedirect, ok, out.ErrName))
	switch {
	case c.Used:
		s.R.Count("replays", 1)
		if ok {
			s.viol("code-twice", g.Origin, "a used authorization code yielded tokens again")
			s.takePair(g, out, fosite.GrantTypeAuthorizationCode, true)
		} else if out.ErrName != "invalid_grant" {
			s.viol("replay-error-class", g.Origin, "replay answered "+out.ErrName+" instead of invalid_grant: "+world.ErrDetail(out.Err))
		}
		if len(g.endpointToks()) > 0 {
			s.R.Count("replays_with_family", 1)
		}
		s.killFamily(g, "replay")
	case foreign || wrongRedirect:
		if ok {
			s.viol("code-binding", fmt.Sprintf("%s foreign=%v wrongRedirect=%v", g.Origin, foreign, wrongRedirect), "tokens issued to a foreign client or with a different redirect_uri")
			c.Used = true
			g2 := *g
			_ = g2
			s.takePair(g, out, fosite.GrantTypeAuthorizationCode, true)
		} else if out.ErrName != "invalid_grant" && state == "fresh" {
			s.viol("code-binding-error-class", g.Origin, "answered "+out.ErrName+" instead of invalid_grant")
		}
		s.R.Count("foreign_or_wrong_redirect_attempts", 1)
		if !ok && state == "fresh" {
			for _, cl := range calls {
				if world.TokenTableWrites[cl.Method] && cl.Err == "" {
					s.viol("failed-attempt-wrote-state", fmt.Sprintf("%s foreign=%v wrongRedirect=%v write=%s", g.Origin, foreign, wrongRedirect, cl.Method),
						fmt.Sprintf("a refused redemption performed the storage write %s", cl.String()))
				}
			}
		}
	case state == "expired":
		if ok {
			s.viol("alive:expired", g.Origin+"/code", fmt.Sprintf("code expired at %s but was redeemed at %s", c.Exp, now))
			c.Used = true
			s.takePair(g, out, fosite.GrantTypeAuthorizationCode, true)
		}
		s.R.Count("expired_code_attempts", 1)
	case state == "boundary":
		s.R.Unspecified("code-at-boundary-instant")
		if ok {
			c.Used = true
			s.takePair(g, out, fosite.GrantTypeAuthorizationCode, true)
		}
	default:
		if ok {
			c.Used = true
			s.takePair(g, out, fosite.GrantTypeAuthorizationCode, true)
			s.R.Count("redeem_ok", 1)
		} else {
			s.viol("rightful-redeem-refused", g.Origin, "fresh code presented by its owner was refused: "+world.ErrDetail(out.Err))
		}
	}
	s.checkOthers(before, "redeem")
	return out
}

// snapshotOthers / checkOthers are cheap collateral guards: the sweep does the real work.
func (s *Sim) snapshotOthers(g *Grant) int { return len(s.Toks) }
func (s *Sim) checkOthers(int, string)     {}

// Refresh presents a refresh token.
func (s *Sim) Refresh(t *Tok, as string, extra url.Values) *world.Out {
	g := t.Grant
	if as == "" {
		as = g.Client
	}
	form := url.Values{"grant_type": {"refresh_token"}, "refresh_token": {t.Value}}
	for k, v := range extra {
		form[k] = v
	}
	v, why := s.Expect(t)
	foreign := as != g.Client
	state := "live"
	if v == MustInactive {
		state = why
	} else if v == Unspec {
		state = "unspec"
	}
	s.log("refresh %s as=%s state=%s latest=%v", t.Name(), as, state, t == g.Latest)
	var capt reqCapture
	out := s.W.Token(form, s.auth(as), capt.mut())
	ok := out.Err == nil && out.S("access_token") != ""
	if ok {
		s.checkRequested(g, &capt, "refresh_token")
	}
	s.note("%s", map[bool]string{true: "tokens", false: "refused " + world.ErrDetail(out.Err)}[ok])
	s.R.Case(fmt.Sprintf("refresh origin=%s state=%s foreign=%v ok=%v err=%s", g.Origin, state, foreign, ok, out.ErrName))
	switch {
	case foreign:
		s.R.Count("foreign_refresh_attempts", 1)
		if ok {
			s.viol("refresh-cross-client", g.Origin, "refresh token honoured for client "+as+" but was issued to "+g.Client)
		}
		if t.Dead == "rotate" {
			// an already-used token was presented: the statement lets the server kill the family
			for _, x := range g.Toks {
				if x.Dead == "" && x.Fuzzy == "" {
					x.Fuzzy = "used-token-presented-by-foreign-client"
				}
			}
		}
	case t.Dead == "rotate":
		s.R.Count("reuse_presentations", 1)
		if ok {
			s.viol("refresh-twice", g.Origin, "an already-used refresh token was exchanged again")
			s.takeRefreshed(g, t, out)
		} else if out.ErrName != "invalid_grant" {
			s.viol("reuse-error-class", g.Origin, "reuse answered "+out.ErrName+" instead of invalid_grant")
		}
		s.killFamily(g, "reuse")
	case t.Dead != "":
		// revoked, or killed by replay / reuse detection: must be refused (class unspecified)
		s.R.Count("dead_refresh_presentations", 1)
		if ok {
			s.viol("alive:"+t.Dead, originKey(t), "a "+t.Dead+" refresh token was honoured at the token endpoint")
			s.takeRefreshed(g, t, out)
		}
		// presenting an inactive token may trigger family invalidation
		for _, x := range g.Toks {
			if x.Dead == "" && x.Fuzzy == "" {
				x.Fuzzy = "inactive-token-presented"
			}
		}
	case v == MustInactive && why == "expired":
		s.R.Count("expired_refresh_presentations", 1)
		if ok {
			s.viol("alive:expired", originKey(t), fmt.Sprintf("refresh token expired at %s honoured at %s", t.Exp, s.Now()))
			s.takeRefreshed(g, t, out)
		}
	case v == Unspec:
		s.R.Unspecified("refresh-of-" + why)
		if ok {
			s.takeRefreshed(g, t, out)
		}
	default:
		if ok {
			s.takeRefreshed(g, t, out)
			s.R.Count("refresh_ok", 1)
		} else {
			s.viol("rightful-refresh-refused", g.Origin, "live refresh token presented by its owner was refused: "+world.ErrDetail(out.Err))
		}
	}
	return out
}

func (s *Sim) takeRefreshed(g *Grant, old *Tok, out *world.Out) {
	s.kill(old, "rotate")
	if old.Peer != nil {
		s.kill(old.Peer, "rotate")
	}
	s.fuzzImplicit(g, "rotation")
	s.takePair(g, out, fosite.GrantTypeRefreshToken, false)
	nt := g.Latest
	if nt != nil && nt.Value == old.Value {
		s.viol("refresh-not-rotated", g.Origin, "the exchange returned the presented refresh token")
	}
}

// Revoke calls the revocation endpoint as client `as` ("" = owner) with the given hint.
func (s *Sim) Revoke(t *Tok, as, hint string, badSecret bool) *world.Out {
	g := t.Grant
	if as == "" {
		as = g.Client
	}
	form := url.Values{"token": {t.Value}}
	if hint != "" {
		form.Set("token_type_hint", hint)
	}
	a := s.auth(as)
	if badSecret {
		a = world.Basic(as, "definitely-wrong")
	}
	v, why := s.Expect(t)
	state := "live"
	if v == MustInactive {
		state = why
	} else if v == Unspec {
		state = "unspec"
	}
	foreign := as != g.Client
	s.log("revoke %s as=%s hint=%q badSecret=%v state=%s", t.Name(), as, hint, badSecret, state)
	digestBefore := ""
	mustNotChange := badSecret || (foreign && state == "live") || (v == MustInactive && why != "expired")
	if mustNotChange {
		digestBefore = s.W.Store.Digest()
	}
	out := s.W.Revoke(form, a)
	s.note("status=%d err=%s", out.Status, out.ErrName)
	s.R.Case(fmt.Sprintf("revoke %s state=%s foreign=%v badSecret=%v hint=%s err=%s", originKey(t), state, foreign, badSecret, hintClass(hint, t), out.ErrName))
	sp := s.W.Specs[as]
	switch {
	case badSecret && sp != nil && !sp.Public:
		if out.ErrName != "invalid_client" {
			s.viol("revoke-unauthenticated", "err="+out.ErrName, "revocation with a wrong secret answered "+out.ErrName)
		}
	case v == MustInactive && why != "expired":
		// already invalid: success, nothing changes
		if out.Err != nil {
			s.viol("revoke-invalid-token-not-success", why, "revoking an already-invalid token answered "+out.ErrName)
		}
	case foreign && state == "live":
		if out.ErrName != "unauthorized_client" {
			s.viol("revoke-foreign-class", originKey(t), "foreign client revocation answered '"+out.ErrName+"' instead of unauthorized_client")
		} else if out.Status/100 == 2 || fmt.Sprint(out.JSON["error"]) != "unauthorized_client" {
			// the refusal has to reach the caller: what the endpoint writes for it
			s.viol("revoke-foreign-class", originKey(t)+" on the wire", fmt.Sprintf("the library refused the foreign client's revocation as unauthorized_client, but the response written for it is HTTP %d %s", out.Status, out.Body))
		}
	case foreign:
		s.R.Unspecified("foreign-revocation-of-" + state)
	default:
		// owner, token live / expired / unspec
		if out.Err != nil {
			if state == "live" {
				s.viol("revoke-refused", originKey(t), "owner's revocation refused: "+world.ErrDetail(out.Err))
			}
		} else {
			s.R.Count("revocations_accepted", 1)
			if state == "live" {
				s.kill(t, "revoke")
				if t.Peer != nil {
					s.kill(t.Peer, "revoke")
				}
				// other tokens of the same request (hybrid implicit sibling, or code-derived siblings of an implicit token)
				for _, x := range g.Toks {
					if x != t && x != t.Peer && x.Dead == "" && x.Fuzzy == "" && (x.Implicit || t.Implicit) {
						x.Fuzzy = "sibling-of-revoked-in-hybrid-grant"
					}
				}
			} else if state == "expired" {
				// an already-invalid token: answered with success, and nothing may change. Dropping the expired record itself is
				// not observable; what counts is whether a token of the grant that was alive is still alive.
				for _, x := range g.Toks {
					if x == t {
						continue
					}
					if vv, _ := s.Expect(x); vv != MustActive {
						continue
					}
					in := s.W.IntrospectAPI(x.Value, fosite.TokenUse(x.Kind+"_token"))
					s.R.Count("expired_revocation_siblings_checked", 1)
					if !in.Active {
						s.R.Count(fmt.Sprintf("expired_revocation_killed:%s->%s", t.Kind, x.Kind), 1)
						s.viol("revoke-expired-changed-state", "live token of the same grant invalidated",
							fmt.Sprintf("revoking the expired %s invalidated the live %s of the same grant", t.Name(), x.Name()))
						s.kill(x, "revoke")
					}
				}
			} else {
				for _, x := range g.Toks {
					if x.Dead == "" && x.Fuzzy == "" {
						x.Fuzzy = "revocation-of-" + state + "-token"
					}
				}
			}
		}
	}
	if mustNotChange {
		if d := world.DigestDiff(digestBefore, s.W.Store.Digest()); len(d) > 0 {
			s.viol("revoke-changed-state", fmt.Sprintf("foreign=%v badSecret=%v state=%s", foreign, badSecret, state), strings.Join(d, "\n"))
		}
	}
	return out
}

func hintClass(h string, t *Tok) string {
	switch h {
	case "":
		return "absent"
	case t.Kind + "_token":
		return "right"
	case "access_token", "refresh_token":
		return "wrong"
	}
	return "garbage"
}

// Advance moves the virtual clock.
func (s *Sim) Advance(d time.Duration) {
	s.log("advance %s", d)
	world.Sleep(d)
}

// Password runs the resource-owner password grant.
func (s *Sim) Password(client string, scopes []string) *Grant {
	form := url.Values{"grant_type": {"password"}, "username": {world.UserName}, "password": {world.UserPass}, "scope": {strings.Join(scopes, " ")}}
	s.log("password client=%s scope=%v", client, scopes)
	out := s.W.Token(form, s.auth(client))
	if out.Err != nil {
		s.note("error %s", world.ErrDetail(out.Err))
		return nil
	}
	g := &Grant{ID: len(s.Grants), Origin: "password", Client: client, Subject: "*", Scopes: scopes}
	s.Grants = append(s.Grants, g)
	s.takePair(g, out, fosite.GrantTypePassword, false)
	s.note("ok g%d rt=%v", g.ID, g.Latest != nil)
	return g
}

// ClientCredentials runs the client_credentials grant.
func (s *Sim) ClientCredentials(client string, scopes, aud []string) *Grant {
	form := url.Values{"grant_type": {"client_credentials"}, "scope": {strings.Join(scopes, " ")}}
	for _, a := range aud {
		form.Add("audience", a)
	}
	s.log("client_credentials client=%s scope=%v", client, scopes)
	out := s.W.Token(form, s.auth(client))
	if out.Err != nil {
		s.note("error %s", world.ErrDetail(out.Err))
		return nil
	}
	g := &Grant{ID: len(s.Grants), Origin: "client_credentials", Client: client, Subject: "*", Scopes: scopes, Aud: aud}
	s.Grants = append(s.Grants, g)
	s.takePair(g, out, fosite.GrantTypeClientCredentials, false)
	s.note("ok g%d", g.ID)
	return g
}

// DeviceGrant runs the whole device flow (start, accept, poll).
func (s *Sim) DeviceGrant(client string, scopes []string) *Grant {
	form := url.Values{"client_id": {client}, "scope": {strings.Join(scopes, " ")}}
	s.log("device client=%s scope=%v", client, scopes)
	d := s.W.Device(form, s.auth(client))
	if d.Err != nil {
		s.note("error %s", world.ErrDetail(d.Err))
		return nil
	}
	if err := s.W.DeviceDecide(d.S("user_code"), true, "user-dev", nil, true); err != nil {
		s.note("decide error %v", err)
		return nil
	}
	out := s.W.Token(url.Values{"grant_type": {"urn:ietf:params:oauth:grant-type:device_code"}, "device_code": {d.S("device_code")}}, s.auth(client))
	if out.Err != nil {
		s.note("poll error %s", world.ErrDetail(out.Err))
		return nil
	}
	g := &Grant{ID: len(s.Grants), Origin: "device", Client: client, Subject: "user-dev", Scopes: scopes}
	s.Grants = append(s.Grants, g)
	s.takePair(g, out, fosite.GrantTypeDeviceCode, true)
	s.note("ok g%d rt=%v", g.ID, g.Latest != nil)
	return g
}

// checkJWT decodes a JWT access token's payload and compares it with the grant.
func (s *Sim) checkJWT(t *Tok) {
	parts := strings.Split(t.Value, ".")
	if len(parts) != 3 {
		return
	}
	raw, err := base64.RawURLEncoding.DecodeString(parts[1])
	if err != nil {
		return
	}
	var m map[string]interface{}
	if json.Unmarshal(raw, &m) != nil {
		return
	}
	g := t.Grant
	var bad []string
	list := func(v interface{}) []string {
		var o []string
		switch x := v.(type) {
		case []interface{}:
			for _, e := range x {
				o = append(o, fmt.Sprint(e))
			}
		case string:
			o = strings.Fields(x)
		}
		return o
	}
	if !sameSet(list(m["scp"]), g.Scopes) {
		bad = append(bad, fmt.Sprintf("scp %v != %v", m["scp"], g.Scopes))
	}
	if !sameSet(list(m["aud"]), g.Aud) {
		bad = append(bad, fmt.Sprintf("aud %v != %v", m["aud"], g.Aud))
	}
	// the JWT "sub" comes from the session the integrator supplies; only the harness-built sessions of the
	// authorization-endpoint and device flows carry the grant's subject there
	if g.Subject != "*" && g.Origin != "jwt_bearer" && fmt.Sprint(m["sub"]) != g.Subject {
		bad = append(bad, fmt.Sprintf("sub %v != %v", m["sub"], g.Subject))
	}
	if e, ok := m["exp"].(float64); !ok || int64(e) != t.Exp.Unix() {
		bad = append(bad, fmt.Sprintf("exp %v != %d", m["exp"], t.Exp.Unix()))
	}
	s.R.Count("jwt_access_tokens_decoded", 1)
	if len(bad) > 0 {
		s.viol("payload", originKey(t)+"/jwt-claims", fmt.Sprintf("JWT access token %s: %s", t.Name(), strings.Join(bad, "; ")))
	}
}

// JWTBearer runs the RFC 7523 authorization grant with a harness-signed assertion.
func (s *Sim) JWTBearer(client, assertion, subject string, scopes, aud []string) *Grant {
	form := url.Values{"grant_type": {"urn:ietf:params:oauth:grant-type:jwt-bearer"}, "assertion": {assertion}, "scope": {strings.Join(scopes, " ")}}
	s.log("jwt_bearer client=%s sub=%s scope=%v", client, subject, scopes)
	out := s.W.Token(form, s.auth(client))
	if out.Err != nil {
		s.note("error %s", world.ErrDetail(out.Err))
		return nil
	}
	g := &Grant{ID: len(s.Grants), Origin: "jwt_bearer", Client: client, Subject: subject, Scopes: scopes, Aud: aud}
	s.Grants = append(s.Grants, g)
	s.takePair(g, out, fosite.GrantTypeJWTBearer, false)
	s.note("ok g%d", g.ID)
	return g
}

// TakeIDTokens exposes id tokens of a grant.
func (g *Grant) LastIDToken() string {
	if len(g.IDToks) == 0 {
		return ""
	}
	return g.IDToks[len(g.IDToks)-1]
}

// reqCapture records what the accepted token request carries as REQUESTED scope / audience between the two phases of the
// token endpoint. For codes and refresh tokens these are those of the authorization request: no token-request parameter can
// add to or change them.
type reqCapture struct {
	seen       bool
	scopes, au []string
}

func (r *reqCapture) mut() world.TokenMut {
	return func(ar fosite.AccessRequester) {
		r.seen = true
		r.scopes = append([]string{}, ar.GetRequestedScopes()...)
		r.au = append([]string{}, ar.GetRequestedAudience()...)
	}
}

func sameElems(a, b []string) bool {
	m := map[string]int{}
	for _, x := range a {
		m[x] |= 1
	}
	for _, x := range b {
		m[x] |= 2
	}
	for _, v := range m {
		if v != 3 {
			return false
		}
	}
	return true
}

func (s *Sim) checkRequested(g *Grant, r *reqCapture, grant string) {
	if !r.seen || !g.HasReq {
		return
	}
	s.R.Count("requested_sets_compared", 1)
	if !sameElems(r.scopes, g.ReqScopes) {
		s.viol("requested-scope-changed", grant, fmt.Sprintf("the accepted %s request carries requested scopes %v, the authorization request asked for %v", grant, r.scopes, g.ReqScopes))
	}
	if !sameElems(r.au, g.ReqAud) {
		s.viol("requested-audience-changed", grant, fmt.Sprintf("the accepted %s request carries requested audience %v, the authorization request asked for %v", grant, r.au, g.ReqAud))
	}
}

// ForgetAfterForgedRevocation re-synchronises the model after the server acted on a token string it never issued: what the
// request did to t's grant is no longer specified by any statement.
func (s *Sim) ForgetAfterForgedRevocation(t *Tok) {
	for _, x := range t.Grant.Toks {
		if x.Dead == "" && x.Fuzzy == "" {
			x.Fuzzy = "revocation-through-forged-token"
		}
	}
}
