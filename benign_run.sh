#!/bin/bash
# False-alarm round: every change under benign/ PRESERVES its property (written by sub-agents who were given only the property
# text and told to change whatever the statement does not pin down). Each is applied to a scratch worktree of /repo and ALL
# twenty quick checks are run against it; any exit != 0 is an alarm on code where the property holds.
# usage: ./benign_run.sh [benign/<id> ...]     (default: all)  -> prints one line per change, writes <dir>/benign.json
cd "$(dirname "$0")"
[ $# -eq 0 ] && set -- benign/C*/
for d in "$@"; do
  d=$(realpath ${d%/})
  [ -f $d/meta.json ] || continue
  SKIP_CONFIRM=1 SEEDRUN_OUT=$d/benign.json ./seedrun.py $d C01 C02 C03 C04 C05 C06 C07 C08 C09 C10 C11 C12 C13 C14 C15 C16 C17 C18 C19 C20 > $d/benign.log 2>&1
  python3 - $d <<'PY'
import json,sys
r=json.load(open(sys.argv[1]+'/benign.json'))
bad={p:(v['exit'],[l.strip()[:140] for l in v['lines'] if 'key:' in l or 'BROKEN' in l or 'INCONCL' in l or 'BUILD' in l][:3]) for p,v in r.get('checks',{}).items() if v['exit']!=0}
print(sys.argv[1].split('/')[-1], 'applies', r.get('applies'), 'builds', r.get('builds'), ('ALARMS' if bad else 'silent') if (r.get('applies') and r.get('builds') and r.get('checks')) else 'NOT-RUN', bad if bad else '', flush=True)
PY
  rm -f $d/benign.log
done
