#!/usr/bin/env python3
"""reseed.py [seed names...]  Re-confirms every kept seeded change under seeded/ against /repo HEAD and re-runs the checks that
are recorded for it (the property's own check plus any cross checks already listed) with the current harness; rewrites the
"confirmed_by_me" / "checks_run" / "detected" members of its meta.json. Scratch worktrees live under /tmp and are removed."""
import json, os, subprocess, sys, glob, tempfile
names = sys.argv[1:] or sorted(os.path.basename(os.path.dirname(f)) for f in glob.glob('/verif/seeded/*/meta.json'))
head = subprocess.check_output("git -C /repo rev-parse --short HEAD", shell=True, text=True).strip()
for n in names:
    d = '/verif/seeded/' + n
    m = json.load(open(d + '/meta.json'))
    props = [m["property"]] + [p for p in m["checks_run"]["results"] if p != m["property"]]
    out = tempfile.mktemp(prefix="reseed-", suffix=".json", dir="/tmp")
    env = dict(os.environ, SEEDRUN_OUT=out)
    if os.environ.get("SKIP_CONFIRM") == "1":
        env["SKIP_CONFIRM"] = "1"
    subprocess.run(["/verif/seedrun.py", d] + props, env=env, stdout=subprocess.DEVNULL, stderr=subprocess.DEVNULL)
    r = json.load(open(out)); os.remove(out)
    if "suite_passes_with_change" in r:
        m["confirmed_by_me"].update({k: r.get(k) for k in ["suite_passes_with_change", "demo_fails_with_change", "demo_passes_without_change"]})
        m["confirmed_by_me"]["repo_head"] = head
    res = {p: {"exit": v["exit"], "witness_keys": [l.strip()[5:] for l in v["lines"] if l.strip().startswith("key:")][:6]} for p, v in (r.get("checks") or {}).items()}
    m["checks_run"]["results"] = res
    m["checks_run"]["repo_head"] = head
    m["detected"] = any(v["exit"] == 1 for v in res.values())
    m["detected_by_own_check"] = res.get(m["property"], {}).get("exit") == 1
    json.dump(m, open(d + '/meta.json', 'w'), indent=1)
    ok = all(m["confirmed_by_me"].get(k) for k in ["suite_passes_with_change", "demo_fails_with_change", "demo_passes_without_change"])
    print(n, "confirmed" if ok else "NOT-CONFIRMED", {p: v["exit"] for p, v in res.items()}, flush=True)
